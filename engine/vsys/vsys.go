// Package vsys is the simulated kernel the rewritten proxy code runs on:
// stream sockets, a listener, eventfd, level-triggered epoll, a virtual clock,
// the random source, the request-object pool and the map-order seam.
// Everything nondeterministic is routed through Choose, which the explorer owns.
package vsys

import (
	"errors"
	"fmt"
	"net"
	"os"
	"reflect"
	"sort"
	"syscall"
	"time"

	"golang.org/x/sys/unix"
)

// ---------------------------------------------------------------------------------------------
// choice points

// Chooser is implemented by the explorer. n >= 2. Returns 0..n-1; 0 is the default answer.
type Chooser func(kind string, n int) int

var (
	Choose  Chooser = func(string, int) int { return 0 }
	Tracing bool     // when set, Trace collects a readable event log
	Trace   []string // per-execution event trace (replay / samples only)
)

func Tracef(format string, a ...interface{}) {
	if Tracing {
		Trace = append(Trace, fmt.Sprintf(format, a...))
	}
}

// ---------------------------------------------------------------------------------------------
// sockets

type Sock struct {
	Fd       int
	Name     string
	Listener bool
	Pending  []*Sock // listener: connections waiting for accept()
	Addr     [4]byte // for accepted connections: peer IPv4
	Port     int

	Rx         []byte // bytes readable by the proxy
	PeerFIN    bool   // peer has closed its sending side: read returns 0 after Rx is drained
	PeerRST    bool   // peer reset: read returns ECONNRESET, write EPIPE
	Closed     bool   // proxy closed this fd
	Released   bool   // closed and the descriptor number may be reused (world keeps its own pointer)
	Slow       bool   // write oracle active on this socket
	Unwritable bool   // last write was short / EAGAIN and the peer has not drained yet
	Writes     int    // number of write calls that carried data
	TxTotal    int

	OnWrite func(b []byte) // peer receives bytes written by the proxy
	OnClose func()         // proxy closed the fd
}

const (
	fdEpoll = 900
	fdEvent = 901
	fdBase  = 1000
)

var (
	socks    map[int]*Sock
	nextFd   int
	interest map[int]uint32
	order    []int // fds in epoll registration order
	efdCount uint64
	clock    time.Time
	looptick int
	lastDial *Sock

	// WaitHook decides what epoll_wait returns: n=1 with (fd,mask), n=0 (timeout), or stop.
	WaitHook func() (fd int, mask uint32, n int, stop bool)
	// DialHook decides the outcome of a dial; nil sock = connection refused.
	DialHook func(addr string) *Sock

	ErrStop     = errors.New("vsys: no more events (end of execution)")
	Syscalls    int
	ReuseFds    bool // closed descriptor numbers are handed out again, lowest first (as Linux does)
	IntnChoice  bool // when false, rand.Intn answers 0 (no choice point)
	WriteOracle bool // master switch for short/EAGAIN deviations on Slow sockets
)

type Livelock struct{ N int }

const LoopLimit = 2000000

func Reset() {
	socks = map[int]*Sock{}
	interest = map[int]uint32{}
	order = order[:0]
	nextFd = fdBase
	efdCount = 0
	clock = time.Unix(1700000000, 0)
	looptick = 0
	lastDial = nil
	Trace = Trace[:0]
	Syscalls = 0
	poolReset()
}

// NewPendingSock creates a connection that has no descriptor yet: accept() assigns one.
func NewPendingSock(name string) *Sock { return &Sock{Fd: -1, Name: name} }

func allocFd() int {
	// like the kernel: lowest free descriptor number (closed descriptors are reused)
	fd := fdBase + 1
	for {
		if o, ok := socks[fd]; !ok || (o.Closed && o.Released) {
			break
		}
		fd++
	}
	if fd > nextFd {
		nextFd = fd
	}
	return fd
}

func NewSock(name string) *Sock {
	fd := fdBase + 1
	for {
		if o, ok := socks[fd]; !ok || (o.Closed && o.Released) {
			break
		}
		fd++
	}
	if fd > nextFd {
		nextFd = fd
	}
	s := &Sock{Fd: fd, Name: name}
	socks[s.Fd] = s
	return s
}

func Lookup(fd int) *Sock { return socks[fd] }

func LoopTick() {
	looptick++
	if looptick > LoopLimit {
		looptick = 0
		panic(Livelock{LoopLimit})
	}
}

func sys() { looptick = 0; Syscalls++ }

// LoopReset restarts the livelock counter (enumerators that call proxy code without any simulated syscall).
func LoopReset() { looptick = 0 }

// --- clock ---

func Now() time.Time                  { clock = clock.Add(time.Nanosecond); return clock }
func Since(t time.Time) time.Duration { return Now().Sub(t) }
func Advance(d time.Duration)         { clock = clock.Add(d) }
func Clock() time.Time                { return clock }

// --- random ---

func Intn(n int) int {
	if n <= 0 {
		panic("invalid argument to Intn")
	}
	if n == 1 || !IntnChoice {
		return 0
	}
	return Choose("intn", n)
}

// --- syscalls ---

func Read(fd int, p []byte) (int, error) {
	sys()
	if fd == fdEvent {
		if efdCount == 0 {
			return 0, unix.EAGAIN
		}
		efdCount = 0
		return 8, nil
	}
	s := socks[fd]
	if s == nil || s.Closed {
		return 0, unix.EBADF
	}
	if len(s.Rx) == 0 {
		if s.PeerRST {
			return 0, unix.ECONNRESET
		}
		if s.PeerFIN {
			return 0, nil
		}
		return 0, unix.EAGAIN
	}
	n := copy(p, s.Rx)
	s.Rx = s.Rx[n:]
	return n, nil
}

func Write(fd int, p []byte) (int, error) {
	sys()
	if fd == fdEvent {
		efdCount++
		return 8, nil
	}
	return writeSock(fd, [][]byte{p})
}

func Writev(fd int, iov [][]byte) (int, error) {
	sys()
	return writeSock(fd, iov)
}

func writeSock(fd int, iov [][]byte) (int, error) {
	s := socks[fd]
	if s == nil || s.Closed {
		return 0, unix.EBADF
	}
	if s.PeerRST {
		return 0, unix.EPIPE
	}
	total := 0
	for _, b := range iov {
		total += len(b)
	}
	if total == 0 {
		return 0, nil
	}
	accept := total
	if s.Slow && WriteOracle {
		if s.Unwritable {
			return 0, unix.EAGAIN
		}
		if s.Writes > 0 { // the first write on a fresh socket always fits the empty send buffer
			// 0: all, 1: EAGAIN, 2: 1 byte, 3: half, 4: all but one
			opts := []int{total, 0}
			if total > 1 {
				opts = append(opts, 1)
				if total/2 > 1 {
					opts = append(opts, total/2)
				}
				if total-1 > total/2 && total-1 > 1 {
					opts = append(opts, total-1)
				}
			}
			accept = opts[Choose("write", len(opts))]
		}
	}
	s.Writes++
	if accept == 0 {
		s.Unwritable = true
		Tracef("write fd=%d(%s) EAGAIN", fd, s.Name)
		return 0, unix.EAGAIN
	}
	left := accept
	var got []byte
	for _, b := range iov {
		if left == 0 {
			break
		}
		k := len(b)
		if k > left {
			k = left
		}
		got = append(got, b[:k]...)
		left -= k
	}
	if accept < total {
		s.Unwritable = true
	}
	s.TxTotal += accept
	Tracef("write fd=%d(%s) %d/%d %q", fd, s.Name, accept, total, clip(got))
	if s.OnWrite != nil {
		s.OnWrite(got)
	}
	return accept, nil
}

func clip(b []byte) []byte {
	if len(b) > 120 {
		return append(append([]byte{}, b[:120]...), "..."...)
	}
	return b
}

func Readv(fd int, iov [][]byte) (int, error) { return 0, unix.ENOSYS }

func Close(fd int) error {
	sys()
	if fd == fdEpoll || fd == fdEvent {
		return nil
	}
	s := socks[fd]
	if s == nil || s.Closed {
		return unix.EBADF
	}
	s.Closed = true
	s.Released = ReuseFds
	if _, ok := interest[fd]; ok {
		delInterest(fd)
	}
	Tracef("close fd=%d(%s)", fd, s.Name)
	if s.OnClose != nil {
		s.OnClose()
	}
	return nil
}

func SetNonblock(fd int, nonblocking bool) error                 { return nil }
func SetsockoptInt(fd, level, opt, value int) error              { return nil }
func SetsockoptLinger(fd, level, opt int, l *unix.Linger) error { return nil }

func Accept(lfd int) (int, unix.Sockaddr, error) {
	sys()
	l := socks[lfd]
	if l == nil || !l.Listener || len(l.Pending) == 0 {
		return -1, nil, unix.EAGAIN
	}
	s := l.Pending[0]
	l.Pending = l.Pending[1:]
	if s.Fd < 0 {
		s.Fd = allocFd()
		socks[s.Fd] = s
	}
	Tracef("accept fd=%d(%s)", s.Fd, s.Name)
	return s.Fd, &unix.SockaddrInet4{Port: s.Port, Addr: s.Addr}, nil
}

// Dup is only called by engine.Dial on the fd of the helper TCP connection:
// it hands out the simulated fd prepared by DialTimeout.
func Dup(fd int) (int, error) {
	sys()
	s := lastDial
	lastDial = nil
	if s == nil {
		return -1, unix.EBADF
	}
	return s.Fd, nil
}

// --- dial shim ---

var (
	helperLn   net.Listener
	helperFile *os.File // long-lived connected loopback TCP socket (or an unconnected one as fallback)
)

func helperInit() error {
	if helperFile != nil {
		return nil
	}
	ln, err := net.Listen("tcp4", "127.0.0.1:0")
	if err == nil {
		c, err2 := net.Dial("tcp4", ln.Addr().String())
		if err2 == nil {
			helperLn = ln
			f, err3 := c.(*net.TCPConn).File()
			c.Close()
			if err3 == nil {
				helperFile = f
				return nil
			}
		}
		ln.Close()
	}
	// fallback: an unconnected TCP socket still yields a *net.TCPConn from net.FileConn
	fd, err := syscall.Socket(syscall.AF_INET, syscall.SOCK_STREAM, 0)
	if err != nil {
		return err
	}
	helperFile = os.NewFile(uintptr(fd), "vsys-helper")
	return nil
}

func DialTimeout(network, addr string, d time.Duration) (net.Conn, error) {
	sys()
	if err := helperInit(); err != nil {
		return nil, err
	}
	var s *Sock
	if DialHook != nil {
		s = DialHook(addr)
	}
	if s == nil {
		Tracef("dial %s refused", addr)
		return nil, &net.OpError{Op: "dial", Net: network, Err: unix.ECONNREFUSED}
	}
	Tracef("dial %s -> fd=%d", addr, s.Fd)
	lastDial = s
	c, err := net.FileConn(helperFile)
	if err != nil {
		lastDial = nil
		return nil, err
	}
	return c, nil
}

// --- epoll / eventfd ---

func EpollCreate1(flag int) (int, error)           { return fdEpoll, nil }
func Eventfd(initval uint, flags int) (int, error) { efdCount = uint64(initval); return fdEvent, nil }

func delInterest(fd int) {
	delete(interest, fd)
	for i, f := range order {
		if f == fd {
			order = append(order[:i], order[i+1:]...)
			break
		}
	}
}

func EpollCtl(epfd, op, fd int, ev *unix.EpollEvent) error {
	sys()
	if fd != fdEvent {
		if s := socks[fd]; s == nil || s.Closed {
			return unix.EBADF
		}
	}
	switch op {
	case unix.EPOLL_CTL_ADD:
		if _, ok := interest[fd]; ok {
			return unix.EEXIST
		}
		interest[fd] = ev.Events
		order = append(order, fd)
	case unix.EPOLL_CTL_MOD:
		if _, ok := interest[fd]; !ok {
			return unix.ENOENT
		}
		interest[fd] = ev.Events
	case unix.EPOLL_CTL_DEL:
		if _, ok := interest[fd]; !ok {
			return unix.ENOENT
		}
		delInterest(fd)
	default:
		return unix.EINVAL
	}
	return nil
}

// Interest returns the registered interest mask of fd (0, false when not registered).
func Interest(fd int) (uint32, bool) { m, ok := interest[fd]; return m, ok }

// EfdReady: the eventfd counter is non-zero (queued tasks will run when reported).
func EfdReady() bool { return efdCount > 0 }
func EfdFd() int     { return fdEvent }

// ReadyMask computes what a level-triggered epoll would report for fd now.
func ReadyMask(fd int) uint32 {
	in, ok := interest[fd]
	if !ok {
		return 0
	}
	var m uint32
	if fd == fdEvent {
		if efdCount > 0 {
			m |= unix.EPOLLIN
		}
		return m & in
	}
	s := socks[fd]
	if s == nil || s.Closed {
		return 0
	}
	if s.Listener {
		if len(s.Pending) > 0 {
			m |= unix.EPOLLIN
		}
		return m & in
	}
	if len(s.Rx) > 0 || s.PeerFIN || s.PeerRST {
		m |= unix.EPOLLIN
	}
	if !s.Unwritable {
		m |= unix.EPOLLOUT
	}
	m &= in
	if s.PeerRST { // error conditions are reported regardless of the interest set
		m |= unix.EPOLLERR | unix.EPOLLHUP
	}
	return m
}

func EpollWait(epfd int, events []unix.EpollEvent, msec int) (int, error) {
	sys()
	fd, mask, n, stop := WaitHook()
	if stop {
		return -1, ErrStop
	}
	if n == 0 {
		return 0, nil
	}
	events[0] = unix.EpollEvent{Fd: int32(fd), Events: mask}
	return 1, nil
}

// ---------------------------------------------------------------------------------------------
// request-object pool: deterministic LIFO free list (legal, and the most adversarial, sync.Pool)

type Pool struct {
	New  func() interface{}
	free []interface{}
	reg  bool
}

var pools []*Pool

func (p *Pool) Get() interface{} {
	if n := len(p.free); n > 0 {
		x := p.free[n-1]
		p.free = p.free[:n-1]
		return x
	}
	if p.New != nil {
		return p.New()
	}
	return nil
}

func (p *Pool) Put(x interface{}) {
	if !p.reg {
		p.reg = true
		pools = append(pools, p)
	}
	p.free = append(p.free, x)
}

func poolReset() {
	for _, p := range pools {
		p.free = nil
	}
}

// ---------------------------------------------------------------------------------------------
// map iteration order

// OrderSites: iteration sites whose order is an explorer choice (others: ascending).
var OrderSites = map[string]bool{}

func permute(n int, site string) []int {
	idx := make([]int, n)
	for i := range idx {
		idx[i] = i
	}
	if n < 2 || n > 4 || !OrderSites[site] {
		return idx
	}
	f := 1
	for i := 2; i <= n; i++ {
		f *= i
	}
	c := Choose("order", f)
	// c-th permutation in lexicographic order
	avail := append([]int{}, idx...)
	out := make([]int, 0, n)
	for i := n; i >= 1; i-- {
		f /= i
		k := c / f
		c %= f
		out = append(out, avail[k])
		avail = append(avail[:k], avail[k+1:]...)
	}
	return out
}

func KeysInt32(m interface{}, site string) []int32 {
	v := reflect.ValueOf(m)
	ks := make([]int32, 0, v.Len())
	for _, k := range v.MapKeys() {
		ks = append(ks, int32(k.Int()))
	}
	sort.Slice(ks, func(i, j int) bool { return ks[i] < ks[j] })
	p := permute(len(ks), site)
	out := make([]int32, len(ks))
	for i, j := range p {
		out[i] = ks[j]
	}
	return out
}

func KeysInt(m interface{}, site string) []int {
	v := reflect.ValueOf(m)
	ks := make([]int, 0, v.Len())
	for _, k := range v.MapKeys() {
		ks = append(ks, int(k.Int()))
	}
	sort.Ints(ks)
	p := permute(len(ks), site)
	out := make([]int, len(ks))
	for i, j := range p {
		out[i] = ks[j]
	}
	return out
}

func KeysString(m interface{}, site string) []string {
	v := reflect.ValueOf(m)
	ks := make([]string, 0, v.Len())
	for _, k := range v.MapKeys() {
		ks = append(ks, k.String())
	}
	sort.Strings(ks)
	p := permute(len(ks), site)
	out := make([]string, len(ks))
	for i, j := range p {
		out[i] = ks[j]
	}
	return out
}
