package world

import (
	"bytes"
	"strconv"
)

// Cmd encodes a request as a RESP array of bulk strings.
func Cmd(args ...string) []byte {
	var b bytes.Buffer
	b.WriteString("*" + strconv.Itoa(len(args)) + "\r\n")
	for _, a := range args {
		b.WriteString("$" + strconv.Itoa(len(a)) + "\r\n" + a + "\r\n")
	}
	return b.Bytes()
}

func CmdB(args ...[]byte) []byte {
	var b bytes.Buffer
	b.WriteString("*" + strconv.Itoa(len(args)) + "\r\n")
	for _, a := range args {
		b.WriteString("$" + strconv.Itoa(len(a)) + "\r\n")
		b.Write(a)
		b.WriteString("\r\n")
	}
	return b.Bytes()
}

func Bulk(s string) []byte { return []byte("$" + strconv.Itoa(len(s)) + "\r\n" + s + "\r\n") }

const (
	ParseOK = iota
	ParseIncomplete
	ParseMalformed
)

// canonical non-negative decimal: no sign, no leading zeros (except "0"), at least one digit
func canonLen(b []byte) (int, bool) {
	if len(b) == 0 || len(b) > 10 {
		return 0, false
	}
	if b[0] == '0' && len(b) > 1 {
		return 0, false
	}
	n := 0
	for _, c := range b {
		if c < '0' || c > '9' {
			return 0, false
		}
		n = n*10 + int(c-'0')
	}
	return n, true
}

// readLineStrict returns the line without CRLF and the total consumed length.
func readLineStrict(b []byte) (line []byte, n int, st int) {
	i := bytes.IndexByte(b, '\n')
	if i < 0 {
		// a lone CR followed by something other than LF cannot happen here because we only look for LF;
		// but a CR in the middle of a length line is malformed
		for j, c := range b {
			if c == '\r' && j != len(b)-1 {
				return nil, 0, ParseMalformed
			}
		}
		return nil, 0, ParseIncomplete
	}
	if i == 0 || b[i-1] != '\r' {
		return nil, 0, ParseMalformed
	}
	return b[:i-1], i + 1, ParseOK
}

// ParseRequestStrict parses one request the way a Redis server accepts it from a well-behaved
// client: "*<n>\r\n" with n >= 1 canonical, then n times "$<len>\r\n<bytes>\r\n" with canonical
// len. Anything a server would answer with "Protocol error" (or silently treat differently from
// what the byte sequence suggests) is ParseMalformed.
func ParseRequestStrict(b []byte) (args [][]byte, n int, st int) {
	if len(b) == 0 {
		return nil, 0, ParseIncomplete
	}
	if b[0] != '*' {
		return nil, 0, ParseMalformed
	}
	line, k, st := readLineStrict(b)
	if st != ParseOK {
		return nil, 0, st
	}
	cnt, ok := canonLen(line[1:])
	if !ok || cnt < 1 || cnt > 1024*1024 { // Redis: "invalid multibulk length"
		return nil, 0, ParseMalformed
	}
	pos := k
	for i := 0; i < cnt; i++ {
		if pos >= len(b) {
			return nil, 0, ParseIncomplete
		}
		if b[pos] != '$' {
			return nil, 0, ParseMalformed
		}
		line, k, st := readLineStrict(b[pos:])
		if st != ParseOK {
			return nil, 0, st
		}
		l, ok := canonLen(line[1:])
		if !ok || l > 512*1024*1024 { // Redis: "invalid bulk length" (proto-max-bulk-len)
			return nil, 0, ParseMalformed
		}
		pos += k
		if pos+l+2 > len(b) {
			// the terminator is judged when both of its bytes are there (as a parser reading it in one piece does)
			return nil, 0, ParseIncomplete
		}
		if b[pos+l] != '\r' || b[pos+l+1] != '\n' {
			return nil, 0, ParseMalformed
		}
		args = append(args, b[pos:pos+l])
		pos += l + 2
	}
	return args, pos, ParseOK
}

// ParseReply returns the length of the first complete RESP2 reply in b.
func ParseReply(b []byte) (n int, st int) {
	if len(b) == 0 {
		return 0, ParseIncomplete
	}
	i := bytes.IndexByte(b, '\n')
	switch b[0] {
	case '+', '-', ':':
		if i < 0 {
			return 0, ParseIncomplete
		}
		if i < 1 || b[i-1] != '\r' {
			return 0, ParseMalformed
		}
		return i + 1, ParseOK
	case '$':
		if i < 0 {
			return 0, ParseIncomplete
		}
		if i < 2 || b[i-1] != '\r' {
			return 0, ParseMalformed
		}
		if string(b[1:i-1]) == "-1" {
			return i + 1, ParseOK
		}
		l, ok := canonLen(b[1 : i-1])
		if !ok {
			return 0, ParseMalformed
		}
		if len(b) < i+1+l+2 {
			return 0, ParseIncomplete
		}
		if b[i+1+l] != '\r' || b[i+1+l+1] != '\n' {
			return 0, ParseMalformed
		}
		return i + 1 + l + 2, ParseOK
	case '*':
		if i < 0 {
			return 0, ParseIncomplete
		}
		if i < 2 || b[i-1] != '\r' {
			return 0, ParseMalformed
		}
		if string(b[1:i-1]) == "-1" {
			return i + 1, ParseOK
		}
		c, ok := canonLen(b[1 : i-1])
		if !ok {
			return 0, ParseMalformed
		}
		pos := i + 1
		for k := 0; k < c; k++ {
			m, st := ParseReply(b[pos:])
			if st != ParseOK {
				return 0, st
			}
			pos += m
		}
		return pos, ParseOK
	}
	return 0, ParseMalformed
}

// SplitReplies cuts a client-side byte stream into complete replies + an unparsed rest.
func SplitReplies(b []byte) (replies [][]byte, rest []byte, malformed bool) {
	for len(b) > 0 {
		n, st := ParseReply(b)
		if st == ParseIncomplete {
			return replies, b, false
		}
		if st == ParseMalformed {
			return replies, b, true
		}
		replies = append(replies, b[:n])
		b = b[n:]
	}
	return replies, nil, false
}

func IsError(reply []byte) bool { return len(reply) > 0 && reply[0] == '-' }
