package checks

import (
	"bytes"
	"fmt"
	"strings"
	"time"

	"rcproxy/core/vsys"
	"rcproxy/core/zz_verif/world"
)

// keyWith finds a brace-free key with the given prefix whose slot lies in third t (0=A,1=B,2=C); n-th such key.
func keyWith(prefix string, t int, n int) string {
	for i := 0; ; i++ {
		k := fmt.Sprintf("%s%d", prefix, i)
		s := world.SpecSlot([]byte(k))
		th := 2
		if s <= 5460 {
			th = 0
		} else if s <= 10922 {
			th = 1
		}
		if th == t {
			if n == 0 {
				return k
			}
			n--
		}
	}
}

// ---------------------------------------------------------------------------------------------
// C09: completed replies are delivered promptly, not withheld by later requests.

type fwdReq struct {
	req    Req
	keys   []string
	nfrags int
}

// answeredPrefix: number m such that for requests 0..m-1 every fragment reply has been read by the proxy.
func answeredPrefix(w *world.World, reqs []fwdReq) int {
	m := 0
	for _, r := range reqs {
		seen := 0
		ok := true
		for _, bc := range w.BConns {
			di := 0
			for _, rec := range bc.Log {
				name := world.Lower(rec.Args[0])
				if name == "auth" || name == "readonly" || name == "cluster" || name == "asking" {
					di++
					continue
				}
				mine := false
				for _, a := range rec.Args[1:] {
					for _, k := range r.keys {
						if string(a) == k {
							mine = true
						}
					}
				}
				if mine {
					seen++
					if !bc.ReadByProxy(di) {
						ok = false
					}
				}
				di++
			}
		}
		if !ok || seen < r.nfrags {
			break
		}
		m++
	}
	return m
}

func c09Scenario(kinds []string, bound int) *world.Scenario {
	sc := &world.Scenario{Nodes: T3m(), Bound: bound, Horizon: 300, Family: fmt.Sprintf("open-loop/%d", len(kinds))}
	var reqs []Req
	var frs []fwdReq
	for j, k := range kinds {
		ka, kb := keysA[j], keysB[j]
		switch k {
		case "FA":
			reqs = append(reqs, GetReq(ka))
			frs = append(frs, fwdReq{keys: []string{ka}, nfrags: 1})
		case "FB":
			reqs = append(reqs, GetReq(kb))
			frs = append(frs, fwdReq{keys: []string{kb}, nfrags: 1})
		case "M2":
			reqs = append(reqs, MGetReq(ka, kb))
			frs = append(frs, fwdReq{keys: []string{ka, kb}, nfrags: 2})
		}
	}
	sc.Clients = []world.ClientSpec{ClientOf(reqs, false)}
	sc.Name = fmt.Sprintf("C09/%s/d%d", strings.Join(kinds, ","), bound)
	sc.Quiescent = func(w *world.World) *world.Violation {
		if vsys.EfdReady() || len(w.Clients) == 0 || !w.Clients[0].Accepted || w.Clients[0].Sock.Closed {
			return nil
		}
		m := answeredPrefix(w, frs)
		if got := w.Clients[0].NReplies; got < m {
			return &world.Violation{Sig: "withheld-behind-incomplete-successor", Msg: fmt.Sprintf(
				"the proxy has read the backends' replies for requests 1..%d but the client has only received %d replies (%q) and the loop is about to block", m, got, w.Clients[0].Received)}
		}
		return nil
	}
	sc.Check = func(w *world.World) []world.Violation {
		return CheckStreams(w, StreamOpts{})
	}
	return sc
}

// c09Flood: starvation in logical form. The client's socket is topped up after every read of the proxy, so from the
// proxy's point of view there is always more input. Per loop round (one readiness event for that client) the proxy may
// take in a bounded amount of it (<= 4 read buffers; the pinned code takes one) and must then return to the poller, where
// completed replies are served; a loop that keeps reading while input is available starves every reply for as long as the
// sender keeps going. At the end every request is answered in order.
func c09Flood(shape string, n int, bound int) *world.Scenario {
	sc := &world.Scenario{Nodes: T3m(), Bound: bound, Horizon: 3000, Family: "flood", ReadCap: 64, WriteCap: 64}
	var reqs []Req
	for j := 0; j < n; j++ {
		switch {
		case shape == "get+ping" && j%3 == 2:
			reqs = append(reqs, PingReq())
		case shape == "mget" && j%2 == 1:
			reqs = append(reqs, MGetReq(keysA[j%12], keysB[j%12]))
		default:
			reqs = append(reqs, GetReq(keysA[j%12]))
		}
	}
	cs := ClientOf(reqs, false)
	cs.Flood = true
	sc.Clients = []world.ClientSpec{cs}
	sc.Name = fmt.Sprintf("C09/flood/%s/%dreqs/d%d", shape, n, bound)
	rounds := 0
	lastTotal := 0
	sc.AfterBoot = func(w *world.World) { rounds, lastTotal = 0, 0 }
	sc.Quiescent = func(w *world.World) *world.Violation {
		if len(w.Clients) == 0 || w.Clients[0].Sock == nil {
			return nil
		}
		t := w.Clients[0].Sock.RxTotal
		if took := t - lastTotal; took > 4*w.Opts.ReadBufferCap {
			return &world.Violation{Sig: "loop-monopolised-by-sender", Msg: fmt.Sprintf(
				"in ONE loop round the proxy took in %d bytes of the never-pausing client (read buffer %d bytes) before returning to the poller; while it does so no completed reply is delivered (client has %d replies, %d requests taken in)", took, w.Opts.ReadBufferCap, w.Clients[0].NReplies, t/22)}
		}
		lastTotal = t
		rounds++
		return nil
	}
	sc.Check = func(w *world.World) []world.Violation { return CheckStreams(w, StreamOpts{}) }
	return sc
}

// c09FloodSlow: the never-pausing sender also reads slowly: a flush meets a full socket, a backlog is parked and write
// interest is armed. From then on every readiness event of that client carries "readable" (it never stops sending); when
// the socket becomes writable again the event carries "writable" too, and the proxy must use it. Logical promptness: a
// readiness event that says "writable" while a backlog is waiting is not left unused three times in a row.
func c09FloodSlow(shape string, n int, bound int) *world.Scenario {
	sc := c09Flood(shape, n, bound)
	sc.Clients[0].Slow = true
	sc.WriteOracle = true
	sc.Family = "flood-slow-reader"
	sc.Name = fmt.Sprintf("C09/flood-slow-reader/%s/%dreqs/d%d", shape, n, bound)
	inner := sc.Quiescent
	ignored := 0
	boot := sc.AfterBoot
	sc.AfterBoot = func(w *world.World) { boot(w); ignored = 0 }
	sc.Quiescent = func(w *world.World) *world.Violation {
		if v := inner(w); v != nil {
			return v
		}
		if len(w.Clients) == 0 || w.Clients[0].Sock == nil || !w.Clients[0].Accepted || w.Clients[0].Sock.Closed {
			return nil
		}
		fd := w.Clients[0].Sock.Fd
		if w.LastFd != fd {
			return nil
		}
		const out = 0x4 // EPOLLOUT
		if w.LastMask&out != 0 && vsys.ReadyMask(fd)&out != 0 {
			ignored++
		} else {
			ignored = 0
		}
		w.LastFd = -1
		if ignored >= 3 {
			return &world.Violation{Sig: "withheld-from-writable-client", Msg: fmt.Sprintf(
				"three readiness events in a row told the proxy that the client's socket is writable while a reply backlog is waiting for it; the proxy wrote nothing (the client keeps sending, so it may never do; client has %d replies)", w.Clients[0].NReplies)}
		}
		return nil
	}
	return sc
}

func c09Scenarios(tier string) []*world.Scenario {
	var out []*world.Scenario
	alpha := []string{"FA", "FB", "M2"}
	for _, shape := range []string{"get", "mget"} {
		b := 2
		if tier == "thorough" {
			b = 3
		}
		out = append(out, c09FloodSlow(shape, 14, b))
	}
	// the open-loop client also reads slowly: flushes meet EAGAIN / short writes and must be resumed when it drains
	for _, p := range [][]string{{"FA", "FB", "FA"}, {"FA", "FA", "FA"}, {"M2", "FA"}} {
		b := 3
		if tier == "thorough" {
			b = 4
		}
		sc := c09Scenario(p, b)
		sc.Clients[0].Slow = true
		sc.WriteOracle = true
		sc.Family = "open-loop-slow"
		sc.Name += "/slow-reader"
		inner := sc.Quiescent
		sc.Quiescent = func(w *world.World) *world.Violation {
			if len(w.Clients) > 0 && w.Clients[0].Sock != nil && w.Clients[0].Sock.Unwritable {
				return nil // the client's receive window is closed: nothing can be delivered right now
			}
			if len(w.Clients) > 0 && w.Clients[0].Accepted && !w.Clients[0].Sock.Closed {
				if in, ok := vsys.Interest(w.Clients[0].Sock.Fd); ok && in&0x4 != 0 {
					return nil // a backlog is waiting for the writable event that is already armed
				}
			}
			return inner(w)
		}
		out = append(out, sc)
	}
	// the completed request is one the proxy answers with an error of its own AFTER the backends answered (a split MGET whose
	// merged reply exceeds the size limit while every fragment is within it), followed only by requests the proxy answers
	// itself: nothing else will ever arrive from a backend for this client, the error must go out at once
	for _, tail := range [][]string{{}, {"PING"}, {"PING", "PING"}, {"FA"}} {
		sc := c09Scenario([]string{"M2"}, 3)
		long := map[string]bool{keysA[0]: true, keysB[0]: true}
		sc.MaxLen = 64
		sc.Reply = func(w *world.World, bc *world.BConn, args [][]byte) ([]byte, int) {
			if len(args) == 2 && long[string(args[1])] && world.Lower(args[0]) == "mget" {
				return []byte("*1\r\n" + string(world.Bulk(strings.Repeat("L", 40)))), 0
			}
			return nil, 0
		}
		cs := &sc.Clients[0]
		cs.Expect[0] = []byte(world.RErrRspLarge)
		for j, k := range tail {
			var r Req
			if k == "PING" {
				r = PingReq()
			} else {
				r = GetReq(keysA[3+j])
			}
			cs.Chunks = append(cs.Chunks, world.Chunk{Data: r.Bytes})
			cs.Reqs = append(cs.Reqs, r.Bytes)
			cs.Expect = append(cs.Expect, r.Expect)
		}
		sc.Family = "open-loop-oversize-merge"
		sc.Name = fmt.Sprintf("C09/oversize-merged-mget,%s/d3", strings.Join(tail, ","))
		out = append(out, sc)
	}
	// multi-key requests whose keys share a slot (ONE fragment carrying several keys; two fragments of which one carries
	// two keys) from an open-loop client: the reply goes out when the last fragment is answered
	for _, shape := range []string{"del-2same", "mget-2same", "mset-2same", "del-2same+1", "mget-3same"} {
		ka := keysA[0]
		t1, t2, t3 := "{"+ka+"}x", "{"+ka+"}y", "{"+ka+"}z"
		var r Req
		nfr := 1
		keys := []string{t1, t2}
		switch shape {
		case "del-2same":
			r = DelReq(t1, t2)
		case "mget-2same":
			r = MGetReq(t1, t2)
		case "mset-2same":
			r = MSetReq(t1, "1", t2, "2")
		case "del-2same+1":
			r = DelReq(t1, keysB[0], t2)
			nfr, keys = 2, []string{t1, t2, keysB[0]}
		case "mget-3same":
			r = MGetReq(t1, t2, t3)
			keys = []string{t1, t2, t3}
		}
		sc := c09Scenario([]string{"FA", "FB"}, 3)
		f1, f2 := GetReq(keysA[1]), GetReq(keysB[1])
		cs := ClientOf([]Req{r, f1, f2}, false)
		sc.Clients = []world.ClientSpec{cs}
		frs := []fwdReq{{keys: keys, nfrags: nfr}, {keys: []string{keysA[1]}, nfrags: 1}, {keys: []string{keysB[1]}, nfrags: 1}}
		sc.Quiescent = func(w *world.World) *world.Violation {
			if vsys.EfdReady() || len(w.Clients) == 0 || !w.Clients[0].Accepted || w.Clients[0].Sock.Closed {
				return nil
			}
			m := answeredPrefix(w, frs)
			if got := w.Clients[0].NReplies; got < m {
				return &world.Violation{Sig: "withheld-behind-incomplete-successor", Msg: fmt.Sprintf(
					"the proxy has read the backends' replies for requests 1..%d but the client has only received %d replies (%q) and the loop is about to block", m, got, w.Clients[0].Received)}
			}
			return nil
		}
		sc.Family = "open-loop-shared-slot"
		sc.Name = fmt.Sprintf("C09/shared-slot/%s,FA,FB/d3", shape)
		out = append(out, sc)
	}
	// the refresh goroutine is busy (say, waiting for a silent node's INFO) and does not take the probe replies: the channel
	// to it fills up after three; the event loop must drop further reports, never wait for room, and keep serving
	{
		var reqs []Req
		for j := 0; j < 6; j++ {
			reqs = append(reqs, GetReq(keysA[j]), GetReq(keysB[j]))
		}
		cs := ClientOf(reqs, false)
		for j := range cs.Chunks {
			cs.Chunks[j].WaitTicks, cs.Chunks[j].WaitReplies = j/2, j
		}
		var ticks []time.Duration
		for j := 0; j < 6; j++ {
			ticks = append(ticks, 1100*time.Millisecond)
		}
		sc := &world.Scenario{Nodes: T3m(), Bound: 1, Horizon: 600, Family: "probe-channel-full", NoProbeDrain: true, Ticks: ticks,
			Clients: []world.ClientSpec{cs}, Name: "C09/probe-channel-full/6-rounds/d1"}
		sc.TickGate = func(w *world.World) bool { return w.ProbesIdle() && w.Clients[0].NReplies >= 2*(w.Ticks+1) }
		sc.Check = func(w *world.World) []world.Violation { return CheckStreams(w, StreamOpts{}) }
		out = append(out, sc)
	}
	// a client with a reply backlog behind a full socket is closed by the proxy: the others' replies keep flowing
	for _, how := range []string{"quit", "garbage", "fin"} {
		out = append(out, CloseClientWithBacklog("C09", how, 2))
	}
	// one backend read carries a complete reply followed by the first bytes of the next one (replies cut into two
	// segments; how many segments a read carries is an enumerated choice)
	for _, p := range [][]string{{"FA", "FA"}, {"FA", "FA", "FA"}, {"M2", "FA"}, {"FA", "M2"}, {"FB", "FA", "FB", "FA"}} {
		for _, cut := range []int{1, 4} {
			b := 2
			if tier == "thorough" {
				b = 4
			}
			sc := c09Scenario(p, b)
			sc.ReplyCuts = []int{cut}
			sc.CoalesceChoice, sc.FreeKinds = true, []string{"coalesce"}
			sc.Family = "open-loop-partial-successor"
			sc.Name += fmt.Sprintf("/reply-cut%d/coalesce-choice", cut)
			out = append(out, sc)
		}
	}
	// a sender that never pauses (its socket always holds at least two read buffers' worth until 60 requests are out)
	for _, shape := range []string{"get", "get+ping", "mget"} {
		b := 2
		if tier == "thorough" {
			b = 3
		}
		out = append(out, c09Flood(shape, 60, b))
	}
	for n := 2; n <= 4; n++ {
		for _, p := range pipelines(alpha, n) {
			b := 3
			if tier == "thorough" {
				b = -1
				if n == 4 {
					b = 4
				}
			} else if n == 4 {
				b = 2
			}
			out = append(out, c09Scenario(p, b))
		}
	}
	// round 10: a fragment's reply is followed by further replies in the same backend read
	for _, kind := range []string{"mget", "del", "mset"} {
		for _, tail := range []int{1, 3} {
			out = append(out, MultiThenSame("C09", kind, tail, 2))
		}
	}
	return out
}

// ---------------------------------------------------------------------------------------------
// C10: requests from one client reach each node in the order sent.

type rd struct {
	name string
	keys []string
	val  string
}

type rdAt struct {
	name string
	pos  int
	key  string
}

func (d rd) matches(rec world.CmdRec) bool {
	if world.Lower(rec.Args[0]) != d.name || len(rec.Args) < 2 {
		return false
	}
	found := false
	for _, k := range d.keys {
		if string(rec.Args[1]) == k {
			found = true
		}
	}
	if !found {
		return false
	}
	if d.name == "set" && string(rec.Args[2]) != d.val {
		return false
	}
	return true
}

func c10Scenario(name string, pipes [][]Req, keysets [][]rd, bound int) *world.Scenario {
	sc := &world.Scenario{Nodes: T3m(), Bound: bound, Horizon: 400, Stateful: true, Family: fmt.Sprintf("same-node/%dc", len(pipes))}
	for _, p := range pipes {
		sc.Clients = append(sc.Clients, ClientOf(p, false))
	}
	sc.Name = fmt.Sprintf("C10/%s/d%d", name, bound)
	sc.Check = func(w *world.World) []world.Violation {
		vs := CheckStreams(w, StreamOpts{})
		for i := range vs {
			if vs[i].Sig == "corrupt" {
				vs[i].Sig = "read-missed-own-write"
			}
		}
		// per (client, node): commands appear in request order
		for ci, ks := range keysets {
			for _, addr := range []string{AddrA, AddrB, AddrC} {
				last := -1
				for _, rec := range w.DataCmds(addr) {
					ri := -1
					for j, d := range ks {
						if d.matches(rec) {
							ri = j
						}
					}
					if ri < 0 {
						continue
					}
					if ri < last {
						vs = append(vs, world.Violation{Sig: "per-node-order-violated", Msg: fmt.Sprintf("node %s received a command of client %d request %d after one of request %d: %q", addr, ci, ri, last, rec.Raw)})
					}
					if ri > last {
						last = ri
					}
				}
			}
		}
		return vs
	}
	return sc
}

func c10Scenarios(tier string) []*world.Scenario {
	var out []*world.Scenario
	b := 3
	if tier == "thorough" {
		b = -1
	}
	a0, a1, a2 := keysA[0], keysA[1], keysA[2]
	a3, a4 := keysA[3], keysA[4]
	bulk := func(s string) []byte { return world.Bulk(s) }
	set := func(k, v string) Req { return SetReq(k, v) }
	get := func(k, v string) Req {
		r := GetReq(k)
		r.Expect = bulk(v)
		return r
	}
	mget := func(vals []string, keys ...string) Req {
		r := MGetReq(keys...)
		e := []byte(fmt.Sprintf("*%d\r\n", len(keys)))
		for _, v := range vals {
			if v == "" {
				e = append(e, "$-1\r\n"...)
			} else {
				e = append(e, bulk(v)...)
			}
		}
		r.Expect = e
		return r
	}
	// client 0: SET a0 x; GET a0 ; client 1: SET a3 y; GET a3
	out = append(out, c10Scenario("set-get|set-get",
		[][]Req{{set(a0, "x0"), get(a0, "x0")}, {set(a3, "y0"), get(a3, "y0")}},
		[][]rd{{{"set", []string{a0}, "x0"}, {"get", []string{a0}, ""}}, {{"set", []string{a3}, "y0"}, {"get", []string{a3}, ""}}}, b))
	// SET, SET, GET (overwrite) and MGET with two fragments on the same node
	out = append(out, c10Scenario("set-set-get|mset-mget",
		[][]Req{{set(a0, "v1"), set(a0, "v2"), get(a0, "v2")}, {MSetReq(a3, "p", a4, "q"), mget([]string{"p", "q"}, a3, a4)}},
		[][]rd{{{"set", []string{a0}, "v1"}, {"set", []string{a0}, "v2"}, {"get", []string{a0}, ""}}, {{"mset", []string{a3, a4}, ""}, {"mget", []string{a3, a4}, ""}}}, b))
	out = append(out, c10Scenario("set-mget-del-get",
		[][]Req{{set(a1, "m"), mget([]string{"m", ""}, a1, a2), func() Req { r := DelReq(a1); r.Expect = []byte(":1\r\n"); return r }(), func() Req { r := GetReq(a1); r.Expect = []byte("$-1\r\n"); return r }()}},
		[][]rd{{{"set", []string{a1}, "m"}, {"mget", []string{a1, a2}, ""}, {"del", []string{a1}, ""}, {"get", []string{a1}, ""}}}, b))
	// cold backend connections that start with an AUTH handshake: further requests are routed while the handshake reply
	// is still outstanding (the connection must be kept, not replaced: a second connection would break the order)
	for _, one := range []bool{false, true} {
		sc := c10Scenario(fmt.Sprintf("password/set-get-set-get/one=%v", one),
			[][]Req{{set(a0, "x0"), get(a0, "x0"), set(a1, "x1"), get(a1, "x1")}, {set(a3, "y0"), get(a3, "y0")}},
			[][]rd{{{"set", []string{a0}, "x0"}, {"get", []string{a0}, ""}, {"set", []string{a1}, "x1"}, {"get", []string{a1}, ""}}, {{"set", []string{a3}, "y0"}, {"get", []string{a3}, ""}}}, 3)
		sc.Password = "secret"
		sc.Family = "handshake"
		if one {
			for ci := range sc.Clients {
				var all []byte
				for _, ch := range sc.Clients[ci].Chunks {
					all = append(all, ch.Data...)
				}
				sc.Clients[ci].Chunks = []world.Chunk{{Data: all}}
			}
		}
		base := sc.Check
		sc.Check = func(w *world.World) []world.Violation {
			vs := base(w)
			n := 0
			for _, bc := range w.BConns {
				if bc.Addr == AddrA {
					n++
				}
			}
			if n > 1 && len(vs) == 0 {
				vs = append(vs, world.Violation{Sig: "per-node-order-violated", Msg: fmt.Sprintf("with one connection per node configured the proxy opened %d connections to %s while none was lost; requests of one client can overtake each other across them", n, AddrA)})
			}
			return vs
		}
		out = append(out, sc)
	}
	// the node's connection is lost at every point (before the queued requests are written, between them, after): the
	// requests may fail (C15 decides that they are answered) but whatever reaches the node - on the old or on a new
	// connection - arrives in the order sent, and an acknowledged write is seen by the read behind it
	for _, kind := range []string{"backend-close", "backend-rst"} {
		for _, afterW := range []int{0, 1} {
			sc := c10Scenario(fmt.Sprintf("backend-loss/%s/afterW%d/set-get-set-get", kind, afterW),
				[][]Req{{set(a0, "x0"), get(a0, "x0"), set(a1, "x1"), get(a1, "x1")}},
				[][]rd{{{"set", []string{a0}, "x0"}, {"get", []string{a0}, ""}, {"set", []string{a1}, "x1"}, {"get", []string{a1}, ""}}}, 3)
			sc.Family = "backend-loss"
			sc.Faults = []world.Fault{{Kind: kind, Addr: AddrA, AfterW: afterW}}
			var all []byte
			for _, ch := range sc.Clients[0].Chunks {
				all = append(all, ch.Data...)
			}
			sc.Clients[0].Chunks = []world.Chunk{{Data: all}}
			base := sc.Check
			sc.Check = func(w *world.World) []world.Violation {
				var vs []world.Violation
				for _, v := range base(w) {
					if v.Sig == "per-node-order-violated" {
						vs = append(vs, v)
					}
				}
				c := w.Clients[0]
				rs, _, _ := world.SplitReplies(c.Received)
				for j := 0; j+1 < len(rs) && j+1 < len(c.Spec.Expect); j += 2 {
					if bytes.Equal(rs[j], []byte(world.ROK)) && !world.IsError(rs[j+1]) && !bytes.Equal(rs[j+1], c.Spec.Expect[j+1]) {
						vs = append(vs, world.Violation{Sig: "read-missed-own-write", Msg: fmt.Sprintf("request %d (SET) was acknowledged +OK, the GET of the same key pipelined behind it returned %q", j, rs[j+1])})
					}
				}
				return vs
			}
			out = append(out, sc)
		}
	}
	// another client is closed for invalid input in the same loop batch in which its valid first request was routed
	{
		garbage := append(world.Cmd("get", a2), []byte("GARBAGE\r\n")...)
		closer := world.ClientSpec{Chunks: []world.Chunk{{Data: garbage}}, Reqs: [][]byte{garbage}, Expect: [][]byte{nil}}
		sc := c10Scenario("invalid-input-closer|set-get", [][]Req{{set(a0, "w"), get(a0, "w")}}, [][]rd{{{"set", []string{a0}, "w"}, {"get", []string{a0}, ""}}}, 3)
		sc.Clients = append([]world.ClientSpec{closer}, sc.Clients...)
		sc.Family = "closer"
		base := sc.Check
		sc.Check = func(w *world.World) []world.Violation {
			// judge the second client (index 1) with the stream oracle: shift expectations
			c := w.Clients[1]
			rs, _, _ := world.SplitReplies(c.Received)
			for j, r := range rs {
				if j < len(c.Spec.Expect) && !bytes.Equal(r, c.Spec.Expect[j]) {
					return []world.Violation{{Sig: "read-missed-own-write", Msg: fmt.Sprintf("client 1 request %d answered %q, reference %q", j, r, c.Spec.Expect[j])}}
				}
			}
			if len(rs) < len(c.Spec.Expect) && !c.ProxyClosed {
				return []world.Violation{{Sig: "per-node-order-violated", Msg: fmt.Sprintf("client 1 received %d of %d replies (%q): replies on the node connection are matched out of step", len(rs), len(c.Spec.Expect), c.Received)}}
			}
			_ = base
			return nil
		}
		out = append(out, sc)
	}
	// slow backend: the node reads slowly, so the proxy's outbound backlog to it builds up (ring part, then list
	// part at 64 bytes) and is drained in pieces while further requests of the same client are queued
	{
		big := strings.Repeat("B", 90)
		sc := c10Scenario("slow-backend/set-setbig-get",
			[][]Req{{set(a0, "s"), set(a1, big), get(a1, big), set(a0, "t"), get(a0, "t")}},
			[][]rd{{{"set", []string{a0}, "s"}, {"set", []string{a1}, big}, {"get", []string{a1}, ""}, {"set", []string{a0}, "t"}, {"get", []string{a0}, ""}}}, 3)
		sc.SlowBackends, sc.WriteOracle, sc.WriteCap = true, true, 64
		sc.Family = "slow-backend"
		base := sc.Check
		sc.Check = func(w *world.World) []world.Violation {
			if vs := BackendsWellFormed(w); len(vs) > 0 {
				vs[0].Sig = "per-node-order-violated"
				return vs
			}
			return base(w)
		}
		out = append(out, sc)
	}
	// the same at production buffer sizes (64 KiB ring part that starts at 1 KiB and grows): values of 300-900 bytes, so
	// that partial drains leave the read cursor inside the ring, later requests wrap around its end and the ring then grows
	for vi, vals := range [][]int{{900, 600, 600, 700}, {500, 500, 900, 900}, {1000, 30, 1000, 1000}} {
		var reqs []Req
		var rds []rd
		ks := []string{a0, a1, a2, a0}
		for i, n := range vals {
			v := patterned(fmt.Sprintf("v%d", i), n)
			reqs = append(reqs, set(ks[i], v))
			rds = append(rds, rd{"set", []string{ks[i]}, v})
		}
		last := patterned("v3", vals[3])
		reqs = append(reqs, get(a0, last))
		rds = append(rds, rd{"get", []string{a0}, ""})
		b := 3
		if tier == "thorough" {
			b = 4
		}
		sc := c10Scenario(fmt.Sprintf("slow-backend-production-size/values%d", vi), [][]Req{reqs}, [][]rd{rds}, b)
		sc.SlowBackends, sc.WriteOracle, sc.WriteCap, sc.ReadCap = true, true, 65536, 65536
		sc.Family = "slow-backend"
		base := sc.Check
		sc.Check = func(w *world.World) []world.Violation {
			if vs := BackendsWellFormed(w); len(vs) > 0 {
				vs[0].Sig = "per-node-order-violated"
				if len(vs[0].Msg) > 700 {
					vs[0].Msg = vs[0].Msg[:700] + "..."
				}
				return vs
			}
			return base(w)
		}
		out = append(out, sc)
	}
	// replicas present and replica reads enabled: a pipeline of WRITES (DEL, SET, MSET, EXPIRE-like) to one master must still
	// arrive in order (a write mistaken for a read would detour through a replica and arrive late)
	{
		mk := func(name string, reqs []Req, rds []rd) {
			sc := c10Scenario(name, [][]Req{reqs}, [][]rd{rds}, b)
			sc.Nodes = T3()
			sc.CheckOwner = true
			sc.Family = "writes-with-replicas"
			out = append(out, sc)
		}
		del := func(k string, n int) Req {
			r := DelReq(k)
			r.Expect = []byte(fmt.Sprintf(":%d\r\n", n))
			return r
		}
		mk("writes-with-replicas/del-set-del-set",
			[]Req{del(a0, 0), set(a0, "x"), del(a1, 0), set(a1, "y"), del(a2, 0), set(a2, "z")},
			[]rd{{"del", []string{a0}, ""}, {"set", []string{a0}, "x"}, {"del", []string{a1}, ""}, {"set", []string{a1}, "y"}, {"del", []string{a2}, ""}, {"set", []string{a2}, "z"}})
		for _, cmd := range []string{"del", "incr", "append", "lpush", "expire", "setnx", "hset", "sadd", "zadd", "getset", "persist"} {
			var first Req
			switch cmd {
			case "del":
				first = del(a0, 0)
			default:
				args := []string{cmd, a0}
				switch cmd {
				case "append", "lpush", "setnx", "sadd", "getset":
					args = append(args, "v")
				case "expire":
					args = append(args, "100")
				case "hset":
					args = append(args, "f", "v")
				case "zadd":
					args = append(args, "1", "m")
				}
				first = Req{Kind: strings.ToUpper(cmd), Bytes: world.Cmd(args...)}
			}
			mk("writes-with-replicas/"+cmd+"-then-set", []Req{first, set(a0, "w"), set(a1, "u")},
				[]rd{{cmd, []string{a0}, ""}, {"set", []string{a0}, "w"}, {"set", []string{a1}, "u"}})
		}
	}
	// a slot in migration: node A answers -ASK for the key, node B (stateful) serves it after ASKING: a pipelined SET k v;
	// GET k must read the value written (replies on B's connection stay matched to their requests)
	for _, shape := range []string{"set-get", "set-set-get-get"} {
		k := a0
		var reqs []Req
		var rds []rd
		switch shape {
		case "set-get":
			reqs = []Req{set(k, "v1"), get(k, "v1")}
			rds = []rd{{"set", []string{k}, "v1"}, {"get", []string{k}, ""}}
		default:
			// (every request of a pipeline is distinguishable by command + key + value: the order oracle matches on those)
			reqs = []Req{set(k, "v1"), set(a1, "w"), get(k, "v1"), get(a1, "w")}
			rds = []rd{{"set", []string{k}, "v1"}, {"set", []string{a1}, "w"}, {"get", []string{k}, ""}, {"get", []string{a1}, ""}}
		}
		sc := c10Scenario("ask-migrating/"+shape, [][]Req{reqs}, [][]rd{rds}, 2)
		sc.Family = "ask-migrating"
		slot := world.SpecSlot([]byte(k))
		sc.Reply = func(w *world.World, bc *world.BConn, args [][]byte) ([]byte, int) {
			if len(args) > 1 && string(args[1]) == k {
				if bc.Addr == AddrA {
					return askTo(slot, AddrB), 0
				}
				if bc.Addr == AddrB {
					n := len(bc.Log)
					if !(n > 0 && world.Lower(bc.Log[n-1].Args[0]) == "asking") {
						return movedTo(slot, AddrA), 0
					}
				}
			}
			return nil, 0
		}
		// order is judged at node B (where the requests are served); the generic per-node oracle covers it
		out = append(out, sc)
	}
	// scripts and other single-key writes pipelined in front of a write to the same key, on nodes that answer -MOVED for
	// slots they do not own (a request routed by the wrong argument detours and arrives late)
	{
		for _, cmd := range []string{"eval", "evalsha", "setex", "linsert", "hset", "zadd", "setrange", "expire", "rpush"} {
			var args []string
			switch cmd {
			case "eval":
				args = []string{"eval", "redis.call('set',KEYS[1],ARGV[1])", "1", a0, "x"}
			case "evalsha":
				args = []string{"evalsha", "e0e1f9fabfc9d4800c877a703b823ac0578ff8db", "1", a0, "x"}
			case "setex":
				args = []string{"setex", a0, "100", "x"}
			case "linsert":
				args = []string{"linsert", a0, "before", "p", "x"}
			case "hset":
				args = []string{"hset", a0, "f", "x"}
			case "zadd":
				args = []string{"zadd", a0, "1", "x"}
			case "setrange":
				args = []string{"setrange", a0, "0", "x"}
			case "expire":
				args = []string{"expire", a0, "100"}
			case "rpush":
				args = []string{"rpush", a0, "x", "y"}
			}
			first := Req{Kind: strings.ToUpper(cmd), Bytes: world.Cmd(args...)}
			sc := c10Scenario("write-then-set/"+cmd, [][]Req{{first, set(a0, "w"), set(a1, "u")}},
				[][]rd{{{cmd, []string{a0}, ""}, {"set", []string{a0}, "w"}, {"set", []string{a1}, "u"}}}, b)
			if cmd == "eval" || cmd == "evalsha" {
				// the key of a script is its third argument
				ksets := []rdAt{{cmd, 3, a0}, {"set", 1, a0}, {"set", 1, a1}}
				inner := sc.Check
				sc.Check = func(w *world.World) []world.Violation {
					vs := inner(w)
					last := -1
					for _, rec := range w.DataCmds(AddrA) {
						for j, d := range ksets {
							if world.Lower(rec.Args[0]) == d.name && d.pos < len(rec.Args) && string(rec.Args[d.pos]) == d.key {
								if j < last {
									vs = append(vs, world.Violation{Sig: "per-node-order-violated", Msg: fmt.Sprintf("node %s received request %d after request %d: %q", AddrA, j, last, rec.Raw)})
								}
								if j > last {
									last = j
								}
							}
						}
					}
					return vs
				}
			}
			sc.CheckOwner = true
			sc.Family = "write-then-set"
			out = append(out, sc)
		}
	}
	// more fragments for one node than one vectored write takes (1024 slices), queued by a single loop round
	{
		for _, n := range []int{1024, 2048} {
			sc := BigBatchOneNode("C10", n, 0)
			inner := sc.Check
			sc.Check = func(w *world.World) []world.Violation {
				vs := inner(w)
				for i := range vs {
					vs[i].Sig = "per-node-order-violated"
				}
				return vs
			}
			out = append(out, sc)
		}
		sc := BigBatch("C10", 1500, false, 1)
		inner := sc.Check
		sc.Check = func(w *world.World) []world.Violation {
			vs := inner(w)
			for i := range vs {
				if vs[i].Sig != "per-node-order-violated" {
					vs[i].Sig = "per-node-order-violated"
				}
			}
			return vs
		}
		out = append(out, sc)
	}
	if tier == "thorough" {
		out = append(out, c10Scenario("3x set-get",
			[][]Req{{set(a0, "x"), get(a0, "x")}, {set(a1, "y"), get(a1, "y")}, {set(a2, "z"), get(a2, "z")}},
			[][]rd{{{"set", []string{a0}, "x"}, {"get", []string{a0}, ""}}, {{"set", []string{a1}, "y"}, {"get", []string{a1}, ""}}, {{"set", []string{a2}, "z"}, {"get", []string{a2}, ""}}}, 3))
	}
	return out
}

// ---------------------------------------------------------------------------------------------
// C07: split multi-key replies are reassembled correctly in any arrival order.

func c07Scenario(name string, r Req, cuts []int, bound int) *world.Scenario {
	sc := &world.Scenario{Nodes: T3m(), Bound: bound, Horizon: 400, ReplyCuts: cuts, Family: "reassembly"}
	sc.Clients = []world.ClientSpec{ClientOf([]Req{r, PingReq()}, true)}
	sc.Clients[0].Chunks = []world.Chunk{{Data: r.Bytes}, {Data: PingReq().Bytes, WaitReplies: 1}}
	sc.OrderSites = []string{"core/server/server_c.go:OnCReact:Body"}
	sc.Name = fmt.Sprintf("C07/%s/cuts%v/d%d", name, cuts, bound)
	sc.Check = func(w *world.World) []world.Violation {
		vs := CheckStreams(w, StreamOpts{})
		for i := range vs {
			if vs[i].Sig == "corrupt" {
				c := w.Clients[0]
				rs, _, _ := world.SplitReplies(c.Received)
				sig := "element-wrong-value"
				if len(rs) > 0 && len(c.Spec.Expect) > 0 {
					if bytes.HasPrefix(rs[0], []byte("*")) && !bytes.Equal(firstLine(rs[0]), firstLine(c.Spec.Expect[0])) {
						sig = "count-wrong"
					} else if rs[0][0] == ':' {
						sig = "del-sum-wrong"
					} else if rs[0][0] == '+' || rs[0][0] == '-' {
						sig = "mset-status-wrong"
					}
				}
				vs[i].Sig = sig
			}
		}
		return vs
	}
	return sc
}

func firstLine(b []byte) []byte {
	if i := bytes.IndexByte(b, '\n'); i >= 0 {
		return b[:i]
	}
	return b
}

func c07Scenarios(tier string) []*world.Scenario {
	var out []*world.Scenario
	a, a2 := keyWith("k", 0, 0), keyWith("k", 0, 1)
	b, c := keyWith("k", 1, 0), keyWith("k", 2, 0)
	na, eb, cc := keyWith("nil", 0, 0), keyWith("emp", 1, 0), keyWith("crlf", 2, 0)
	reqs := map[string]Req{
		"mget-3nodes":        MGetReq(a, b, c),
		"mget-dups":          MGetReq(b, a, b, a, c, a),
		"mget-nil-empty":     MGetReq(na, eb, cc, a),
		"mget-samenode-2":    MGetReq(a, a2, b),
		"mget-order-rev":     MGetReq(c, b, a, a2),
		"del-3nodes":         DelReq(a, b, c),
		"del-nil-dups":       DelReq(na, a, a, b),
		"del-samenode":       DelReq(a, a2, c),
		"mset-3nodes":        MSetReq(a, "1", b, "2", c, "3"),
		"mset-samenode-crlf": MSetReq(a, "x\r\ny", a2, "", b, "z"),
	}
	names := []string{"mget-3nodes", "mget-dups", "mget-nil-empty", "mget-samenode-2", "mget-order-rev", "del-3nodes", "del-nil-dups", "del-samenode", "mset-3nodes", "mset-samenode-crlf"}
	for _, n := range names {
		out = append(out, c07Scenario(n, reqs[n], nil, -1))
		cutsets := [][]int{{1}, {4}}
		if tier == "thorough" {
			cutsets = [][]int{{1}, {2}, {3}, {4}, {5}, {7}, {9}, {12}, {1, 5}}
		}
		for _, cs := range cutsets {
			b := 3
			if tier == "thorough" {
				b = 5
			}
			out = append(out, c07Scenario(n, reqs[n], cs, b))
		}
	}
	// one fragment is answered with a redirect first (its slot has just moved A->B): the merged result must still be
	// the same for every arrival order of the redirect and of the other fragments' replies
	for _, n := range []string{"mget-3nodes", "del-3nodes", "mset-3nodes", "mget-samenode-2"} {
		sc := c07Scenario(n+"+moved", reqs[n], nil, -1)
		moved := a
		sc.Reply = func(w *world.World, bc *world.BConn, args [][]byte) ([]byte, int) {
			if hasKey(args, moved) && bc.Addr == AddrA {
				return movedTo(world.SpecSlot([]byte(moved)), AddrB), 0
			}
			return nil, 0
		}
		sc.Horizon = 200
		out = append(out, sc)
	}
	// two split requests pipelined on one connection: their fragments' replies arrive in every order, in particular the
	// LATER request completes first and its merged reply waits behind the unfinished earlier one while that one is merged
	{
		a3, b2, c2 := keyWith("k", 0, 2), keyWith("k", 1, 1), keyWith("k", 2, 1)
		// the first request needs node C, the second does not: whenever C answers last the second one completes first
		pairs := map[string][2]Req{
			"mget,mget": {MGetReq(a, c), MGetReq(b2, a3, b)},
			"mget,del":  {MGetReq(a, c), DelReq(a3, b2)},
			"del,mget":  {DelReq(a, c), MGetReq(b2, a3)},
			"mset,mget": {MSetReq(a, "1", c, "2"), MGetReq(a3, b2)},
			"mget,mset": {MGetReq(c, a), MSetReq(a3, "x", b2, "y")},
			"del,del":   {DelReq(c2, a), DelReq(a3, b2)},
		}
		for _, n := range []string{"mget,mget", "mget,del", "del,mget", "mset,mget", "mget,mset", "del,del"} {
			bd := 4
			if tier == "thorough" {
				bd = -1
			}
			sc := c07Scenario("pair/"+n, pairs[n][0], nil, bd)
			sc.Clients = []world.ClientSpec{ClientOf([]Req{pairs[n][0], pairs[n][1], PingReq()}, true)}
			sc.Clients[0].Chunks = []world.Chunk{{Data: append(append([]byte{}, pairs[n][0].Bytes...), pairs[n][1].Bytes...)}, {Data: PingReq().Bytes, WaitReplies: 2}}
			sc.OrderSites = nil
			sc.Family = "pipelined-pair"
			out = append(out, sc)
		}
	}
	// every fragment of the request is answered with a redirect first (the keys' range has just moved to another node): the
	// merged result is the same, for 2, 6 and 9 fragments
	for _, kind := range []string{"mget", "del", "mset"} {
		for _, nf := range []int{2, 6, 9} {
			initSlotKeys()
			var ks []string
			for i := 0; i < nf; i++ {
				ks = append(ks, slotKeys[200+i*11])
			}
			var r Req
			switch kind {
			case "mget":
				r = MGetReq(ks...)
			case "del":
				r = DelReq(ks...)
			default:
				var kv []string
				for _, k := range ks {
					kv = append(kv, k, "v")
				}
				r = MSetReq(kv...)
			}
			sc := c07Scenario(fmt.Sprintf("%s-%dfragments-all-moved", kind, nf), r, nil, 1)
			sc.OrderSites = nil
			sc.ReadCap, sc.WriteCap, sc.Family = 4096, 4096, "all-fragments-redirected"
			kd := kind
			sc.Reply = func(w *world.World, bc *world.BConn, args [][]byte) ([]byte, int) {
				if bc.Addr == AddrA && len(args) > 1 && world.SpecSlot(args[1]) <= 5460 && world.Lower(args[0]) == kd {
					return movedTo(world.SpecSlot(args[1]), AddrB), 0
				}
				return nil, 0
			}
			out = append(out, sc)
		}
	}
	// two fragment replies of one node arrive in one read
	for _, n := range []string{"mget-samenode-2", "del-samenode", "mset-samenode-crlf"} {
		sc := c07Scenario(n+"+coalesced", reqs[n], nil, -1)
		sc.CoalesceAll = true
		out = append(out, sc)
	}
	// another client left (FIN / RST) with a split request unanswered; its request objects are recycled and this client's
	// split request is the next user; the neighbour's late fragment replies arrive before this request's own
	for _, n := range []string{"mget-3nodes", "del-3nodes", "mset-3nodes", "mget-samenode-2"} {
		for _, rst := range []bool{false, true} {
			for _, nb := range []string{"mget", "del"} {
				bd := 2
				if tier == "thorough" {
					bd = 4
				}
				sc := c07Scenario(fmt.Sprintf("%s+neighbour-%s-left-rst=%v", n, nb, rst), reqs[n], nil, bd)
				sc.Family = "after-neighbour-left"
				na1, nb1 := keyWith("nb", 0, 0), keyWith("nb", 1, 0)
				nr := MGetReq(na1, nb1)
				if nb == "del" {
					nr = DelReq(na1, nb1)
				}
				ncs := world.ClientSpec{Chunks: []world.Chunk{{Data: nr.Bytes}}, CloseAfter: 1, CloseRST: rst, Reqs: [][]byte{nr.Bytes}, Expect: [][]byte{nil}}
				sc.Clients = append(sc.Clients, ncs)
				sc.Clients[0].Chunks[0].Gate = func(w *world.World) bool { return len(w.Clients) > 1 && w.Clients[1].Sock.Closed }
				sc.ReuseFds = true
				sc.Reply = func(w *world.World, bc *world.BConn, args [][]byte) ([]byte, int) {
					if hasKey(args, na1) || hasKey(args, nb1) {
						return world.DefaultReply(world.Lower(args[0]), args), 1
					}
					return nil, 0
				}
				sc.Ticks = []time.Duration{time.Millisecond}
				sc.TickGate = func(w *world.World) bool { return len(w.Clients) > 0 && w.Clients[0].DeliveredChunks() >= 1 }
				out = append(out, sc)
			}
		}
	}
	// sweeps over the NUMBERS the merged reply carries: element counts 1..130 and around 256 / 1000 / 1024 over two and
	// three nodes, value lengths 0..300 and around the powers of ten and two (closed loop, default schedule)
	{
		var sweep []Req
		ns := []int{}
		for n := 2; n <= 130; n++ {
			ns = append(ns, n)
		}
		ns = append(ns, 254, 255, 256, 257, 258, 998, 999, 1000, 1001, 1002, 1023, 1024, 1025)
		for _, n := range ns {
			var ks []string
			for i := 0; i < n; i++ {
				ks = append(ks, fmt.Sprintf("{%s}%d", []string{a, b, c}[i%(2+n%2)], i))
			}
			sweep = append(sweep, MGetReq(ks...), DelReq(ks...))
		}
		ls := []int{}
		for L := 0; L <= 300; L++ {
			ls = append(ls, L)
		}
		ls = append(ls, 511, 512, 513, 999, 1000, 1001, 1023, 1024, 1025, 4095, 4096, 4097, 9999, 10000, 10001, 65535, 65536, 65537)
		for _, L := range ls {
			// the node model's value for key k is "v:"+k: a key of L+1 bytes gives a value of L+3 bytes
			k := "{" + a + "}" + strings.Repeat("x", L)
			sweep = append(sweep, MGetReq(k, b))
		}
		const sb = 50
		for i := 0; i < len(sweep); i += sb {
			j := i + sb
			if j > len(sweep) {
				j = len(sweep)
			}
			cs := ClientOf(sweep[i:j], false)
			for q := range cs.Chunks {
				cs.Chunks[q].WaitReplies = q
			}
			sc := c07Scenario(fmt.Sprintf("number-sweep/batch%d", i/sb), sweep[i], nil, 0)
			sc.Clients = []world.ClientSpec{cs}
			sc.OrderSites = nil
			sc.Family, sc.InputEnum = "number-sweep", true
			sc.ReadCap, sc.WriteCap, sc.MaxLen, sc.Horizon = 65536, 65536, 4<<20, 1<<20
			out = append(out, sc)
		}
	}
	// the "thousands of keys" end of the quantifier: one long list over 3 nodes, all 6 routing orders x arrival orders
	var keys []string
	nk := 600
	if tier == "thorough" {
		nk = 3000
	}
	for i := 0; i < nk; i++ {
		keys = append(keys, fmt.Sprintf("{%s}%d", []string{a, b, c}[i%3], i))
	}
	big := c07Scenario(fmt.Sprintf("mget-%dkeys-3slots", nk), MGetReq(keys...), nil, 2)
	big.ReadCap, big.WriteCap = 4096, 4096
	big.Horizon = 4000
	out = append(out, big)
	bigd := c07Scenario(fmt.Sprintf("del-%dkeys-3slots", nk), DelReq(keys...), nil, 2)
	bigd.ReadCap, bigd.WriteCap = 4096, 4096
	bigd.Horizon = 4000
	out = append(out, bigd)
	// round 10: the split request is the first one on connections that start with a handshake, replies share one read
	for _, kind := range []string{"mget", "del", "mset"} {
		for _, cfg := range []struct {
			pw       string
			replicas bool
		}{{"secret", false}, {"", true}, {"secret", true}} {
			out = append(out, ColdSplit("C07", kind, cfg.pw, cfg.replicas, 2))
		}
	}
	// one fragment of a split request is answered with an error line: the merged reply is an error, never a sum / array /
	// OK computed from it (the scenario and its oracle are C11's, run here as part of the merge rules)
	for _, kind := range []string{"mget", "del", "mset"} {
		for _, nodes := range [][]string{{AddrA}, {AddrB}, {AddrA, AddrB}} {
			sc := c11Scenario(kind, 2, nodes, 0, 2)
			sc.Name = "C07/fragment-error/" + strings.TrimPrefix(sc.Name, "C11/")
			sc.Family = "fragment-answered-with-an-error"
			out = append(out, sc)
		}
	}
	return out
}

func init() {
	register(&Check{ID: "C09", Level: "model_checking",
		Rule:      "one open-loop client sending 2-4 forwarded requests (GET@A, GET@B, MGET split A+B) in separate chunks, also as a slow reader whose flushes meet EAGAIN / short writes; every interleaving of client reads, task runs and backend reply deliveries within the bound; the invariant 'replies of requests 1..m read by the proxy => client has >= m replies' is evaluated at EVERY quiescent point (epoll_wait entry); the same with every reply cut in two segments and a backend read carrying any number of ready segments (a complete reply followed by a partial successor); a never-pausing sender (socket topped up after every read of the proxy until 60 requests are out; GET / GET+PING / split MGET): per loop round the proxy takes in at most 4 read buffers of it before it returns to the poller, and all 60 replies arrive in order; non-trivial = >= 1 deviation from the synchronous schedule; distinct = distinct observable outcomes",
		Scenarios: c09Scenarios, BudgetQuick: 90, BudgetThorough: 1200,
		Assumptions: []string{"'promptly' is decided in logical time: before the event loop next blocks", "'not starved' is decided in logical form: bounded intake per loop round from a sender that never pauses (the poller, which serves completed replies, is reached again after <= 4 read buffers)", "simulated kernel; stateless node model"}})
	register(&Check{ID: "C10", Level: "model_checking",
		Rule:      "1-3 clients whose pipelines (SET/GET/MSET/MGET/DEL on keys of one node, incl. two fragments of one request on the same node) all land on node A's single connection; a slow node whose backlog is drained in pieces; another client closed for invalid input in the loop batch that routed its valid request; stateful node model; every interleaving within the bound; oracle: per (client,node) command order = send order, and reads observe the preceding writes; non-trivial = >= 1 deviation; distinct = observable outcomes; plus: password configured, so that further requests are routed while the AUTH reply of the cold connection is still outstanding; plus: the node's connection is lost (FIN / RST) before the queued requests are written and after the first one, order judged over old and new connection together",
		Scenarios: c10Scenarios, BudgetQuick: 90, BudgetThorough: 1200,
		Assumptions: []string{"server_connections = 1 as the property states", "replication inside a replica set is instantaneous in the node model"}})
	register(&Check{ID: "C07", Level: "model_checking",
		Rule:      "MGET/DEL/MSET key lists hitting 2-3 fragments on 2-3 nodes (duplicates, absent, empty and CRLF-bearing values, two fragments on one backend connection), followed by a PING; one fragment answered with a redirect first; two fragment replies of one node in one read; ALL routing orders (map-order choice) x ALL arrival orders of the fragment replies (unbounded) and reply segmentations (single cuts) within the bound; plus one 600/3000-key list; oracle: reference reassembly; non-trivial = >= 1 deviation; distinct = observable outcomes; plus: another client left (FIN/RST) with a split MGET/DEL unanswered, its request objects are recycled, this client's split request is the next user and the neighbour's late fragment replies arrive first",
		Scenarios: c07Scenarios, BudgetQuick: 90, BudgetThorough: 1200,
		Assumptions: []string{"node model returns per-key values that embed the key"}})
}
