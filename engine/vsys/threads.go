package vsys

// Cooperative threads: background goroutines of the code under test (the per-node health monitor) run as threads that
// only execute while the event-loop goroutine has handed them control, and park again at their next blocking
// operation: a receive from their ticker (observed through the goroutine's scheduler status), vsys.Sleep, or the end of
// the function. The world decides when a ticker fires and when a sleeper wakes up (events of the explorer), and what a
// health probe observes (DetectHook). Hence an execution stays a pure function of (scenario, choice list), and the two
// goroutines never run at the same time, so their unsynchronised accesses to shared fields are sequentially consistent
// (data races proper are outside the technique, DESIGN.md section 6).

import (
	"bytes"
	"fmt"
	"runtime"
	"strconv"
	"time"
)

type Thread struct {
	Name     string
	gid      int
	wake     chan struct{}
	exited   bool
	killed   bool
	parked   bool // parked inside a hook (Sleep)
	Sleeping bool
	WakeAt   time.Time
	Tickers  []*Ticker
}

type Ticker struct {
	C       chan time.Time
	th      *Thread
	period  time.Duration
	Next    time.Time
	stopped bool
}

var (
	ThreadsEnabled bool
	Threads        []*Thread
	curThread      *Thread
	// DetectHook answers a health probe of the node at addr (nil: healthy).
	DetectHook func(addr string) error
)

type threadExit struct{}

var stackBuf = make([]byte, 1<<18)

func goid() int {
	var buf [64]byte
	n := runtime.Stack(buf[:], false)
	// "goroutine 123 [running]:"
	f := bytes.Fields(buf[:n])
	if len(f) < 2 {
		return -1
	}
	id, _ := strconv.Atoi(string(f[1]))
	return id
}

// gstatus returns the scheduler status of goroutine gid ("select", "chan receive", "running", "runnable", ...; "" = gone).
func gstatus(gid int) string {
	buf := stackBuf
	n := runtime.Stack(buf, true)
	key := []byte(fmt.Sprintf("goroutine %d [", gid))
	i := bytes.Index(buf[:n], key)
	if i < 0 {
		return ""
	}
	rest := buf[i+len(key) : n]
	j := bytes.IndexAny(rest, ",]")
	if j < 0 {
		return ""
	}
	return string(rest[:j])
}

// GoThread replaces `go x.monitor()`. Without ThreadsEnabled the goroutine is not started at all (its effects are then
// set directly by the scenario); with it, the function runs as a cooperative thread up to its first blocking point.
func GoThread(name string, f func()) {
	if !ThreadsEnabled {
		return
	}
	t := &Thread{Name: name, wake: make(chan struct{})}
	Threads = append(Threads, t)
	started := make(chan struct{})
	go func() {
		t.gid = goid()
		close(started)
		<-t.wake
		defer func() {
			t.exited = true
			if r := recover(); r != nil {
				if _, ok := r.(threadExit); !ok {
					ThreadPanic = fmt.Sprintf("%s: %v", name, r)
				}
			}
		}()
		f()
	}()
	<-started
	run(t, func() { t.wake <- struct{}{} })
}

// ThreadPanic is set when a thread terminated by a panic of the code under test.
var ThreadPanic string

// run hands control to t (kick starts it) and returns when t is parked again or has exited.
func run(t *Thread, kick func()) {
	prev := curThread
	curThread = t
	t.parked = false
	kick()
	waitParked(t)
	curThread = prev
}

// waitParked spins until t is blocked (in a hook, or on channels only the world or a cancellation writes to) or gone.
func waitParked(t *Thread) {
	for spins := 0; ; spins++ {
		if t.exited || t.parked {
			return
		}
		if spins%4 == 3 {
			switch gstatus(t.gid) {
			case "", "select", "chan receive":
				return
			}
		}
		runtime.Gosched()
	}
}

// SettleThreads waits until every thread is blocked or gone (a thread released by a cancelled context terminates on
// its own; the set of enabled events must not depend on how far it got).
func SettleThreads() {
	for _, t := range Threads {
		if !t.exited {
			prev := curThread
			curThread = t
			waitParked(t)
			if gstatus(t.gid) == "" {
				t.exited = true
			}
			curThread = prev
		}
	}
}

func check(t *Thread) {
	if t != nil && t.killed {
		panic(threadExit{})
	}
}

func NewTicker(d time.Duration) *Ticker {
	tk := &Ticker{C: make(chan time.Time, 1), th: curThread, period: d, Next: clock.Add(d)}
	if curThread != nil {
		curThread.Tickers = append(curThread.Tickers, tk)
	}
	return tk
}

func (tk *Ticker) Stop() { tk.stopped = true }

// Reset mirrors time.Ticker.Reset.
func (tk *Ticker) Reset(d time.Duration) { tk.period, tk.Next, tk.stopped = d, clock.Add(d), false }

// Sleep parks the calling thread until the virtual clock has advanced by d (the world wakes it up). On the event-loop
// goroutine itself it advances the virtual clock.
func Sleep(d time.Duration) {
	t := curThread
	if t == nil {
		Advance(d)
		return
	}
	check(t)
	t.Sleeping, t.WakeAt = true, clock.Add(d)
	t.parked = true
	<-t.wake
	t.Sleeping = false
	check(t)
}

// Detect replaces a call of the pool's health probe (a real network round trip): the world answers.
func Detect(addr string, real func() error) error {
	check(curThread)
	if RealDetect && real != nil {
		// the REAL probe body (dial + PING through the proxy's own redis client) over an in-memory connection to the node
		return real()
	}
	if DetectHook != nil {
		return DetectHook(addr)
	}
	return nil
}

// RealDetect: health probes run the real detect() body over RedisDial (set by the world once RedisDialHook is in place).
var RealDetect bool

// --- world side ---

// TickerDue: a ticker of a thread parked in its select is due.
func (t *Thread) TickerDue() *Ticker {
	if t.exited || t.Sleeping || t.killed {
		return nil
	}
	for _, tk := range t.Tickers {
		if !tk.stopped && !clock.Before(tk.Next) && len(tk.C) == 0 {
			return tk
		}
	}
	return nil
}

// Fire delivers one tick and runs the thread until it parks again.
func (tk *Ticker) Fire() {
	tk.Next = tk.Next.Add(tk.period)
	if clock.After(tk.Next) {
		tk.Next = clock.Add(tk.period) // missed ticks are dropped, like time.Ticker
	}
	run(tk.th, func() { tk.C <- clock })
}

// SleeperDue: the thread sleeps and its wake-up time has come.
func (t *Thread) SleeperDue() bool { return !t.exited && t.Sleeping && !clock.Before(t.WakeAt) }

func (t *Thread) Wake() { run(t, func() { t.wake <- struct{}{} }) }

// KillThreads terminates every thread (end of an execution): each is woken with the kill flag set and unwinds at its
// next hook; threads blocked in a select on their ticker are released by a tick first.
func KillThreads() {
	for _, t := range Threads {
		if t.exited {
			continue
		}
		t.killed = true
		for i := 0; i < 1000 && !t.exited; i++ {
			switch {
			case t.Sleeping || t.parked:
				run(t, func() { t.wake <- struct{}{} })
			case len(t.Tickers) > 0:
				tk := t.Tickers[0]
				run(t, func() {
					select {
					case tk.C <- clock:
					default:
					}
				})
			default:
				i = 1000
			}
		}
	}
	Threads = nil
	curThread = nil
	ThreadPanic = ""
}
