// Package checks holds, per property, the scenario families / enumerators and their oracles.
package checks

import (
	"bytes"
	"fmt"
	"strings"
	"time"

	"rcproxy/core/zz_verif/explore"
	"rcproxy/core/zz_verif/world"
)

// Result is what one worker (shard) reports.
type Result struct {
	Property    string
	Tier        string
	Shard       int
	Execs       int64
	Transitions int64
	States      int64
	Steps       int64
	MaxDepth    int
	Replayed    int64
	Outcomes    []uint64
	Nontrivial  []uint64
	Scenarios   int
	Capped      []string
	BoundDone   map[string]int
	HorizonHits int64
	Samples     []string
	Found       []*explore.Found
	Exhaustive  bool
	Notes       []string
	Extra       map[string]interface{}
	WallS       float64
	HarnessErr  string
}

type Check struct {
	ID    string
	Level string // manifest level
	Rule  string
	// E1: scenario list for a tier (deterministic order)
	Scenarios func(tier string) []*world.Scenario
	// E1, lazily: yields the scenarios of this shard only (for enumerations too large to materialise per worker);
	// emit returns false when the time budget is exhausted
	Gen func(tier string, shard, nshards int, emit func(sc *world.Scenario) bool)
	// FromName rebuilds one scenario of Gen from its name (replay)
	FromName func(name string) *world.Scenario
	// E2: sequential enumerator; must honour shard/nshards and the deadline
	Seq func(tier string, shard, nshards int, deadline time.Time, res *Result)
	// budget in seconds per tier
	BudgetQuick, BudgetThorough int
	Assumptions                 []string
}

var Registry = map[string]*Check{}

func register(c *Check) {
	if x, ok := ruleExtra[c.ID]; ok {
		c.Rule += "; FURTHER FAMILIES: " + x
	}
	Registry[c.ID] = c
}

// ruleExtra: families added after the rule texts were first written (kept in one place so that the evidence files
// describe everything a check enumerates)
var ruleExtra = map[string]string{
	"C01": "the pipeline alphabet also holds a GET that its node answers with -MOVED and one answered with -ASK (followed transparently), so local replies, QUIT and redirects meet in every order; big batches at production buffer sizes: 1100 / 2100 requests completed behind a head request whose node answers last, released by ONE flush (more than the 1024 slices a vectored write takes), also to a slow reader, then two more requests; cold backend connections whose AUTH / READONLY replies arrive in pieces while requests are pending on them; exactly 1022..1025 / 2047 / 2048 requests for ONE node behind a stalled head; a slow client with more than 64 KiB parked, a partial drain, then further forwarded and local replies; replies that are EMPTY (empty bulk, empty array, null, array of one empty bulk) in every position of short pipelines; eight locally answered requests in one chunk to a slow reader; a whole write batch (2 / 3 / 5 requests) to one silent node times out: one timeout error per request, in order, then a further request is served",
	"C02": "every command batch also PIPELINED (three requests per chunk, so each is decoded with further client bytes buffered behind it; multiset of request bytes at the nodes = multiset sent); production-size buffers: replies of 64 KiB and more parked for a slow reader (ring part + overflow list) while the request objects that carried them are recycled and reused by another client before the backlog drains; 1100 replies released by one flush followed by two more requests; a 3.5 KB request and a 3.5 KB reply in three and four segments at production buffer sizes; replies of minimal size: a status / error line with empty text (+CRLF, -CRLF), alone and nested in arrays, null array, nested empty array, one-letter status / error, each between ordinary requests to the same node (one chunk / one per request, coalesced backend reads or not)",
	"C03": "the orphan fragment of a locally answered multi-key request / the late reply of a timed-out request is a -MOVED / -ASK redirect; replies of 64 KiB and more parked for a slow reader while their request objects are recycled by another client; a connection that died inside a message (node killed mid-reply, client gone mid-request) followed by a message of another connection that arrives cut; a client closed by the proxy (valid request + garbage in one segment) while its fragment is still waiting to be written, other clients then using the same node connection; a split MGET whose merged reply exceeds the size limit followed by further requests; a client that QUITs right behind its request while the node's reply arrives in the same read as replies for other clients",
	"C04": "a replica re-parented to another master with nothing else changing, a master and its replica swapping roles (judged over all random outcomes: exactly the owning set serves); for every slot a brace-free key containing bytes >= 0x80; the REAL boot path (serve() + engine.start(): seed pools = all masters / one master / a master and a replica, password and preconnect on and off, replica reads off): every connection that carries a request has authenticated (and is READONLY on a replica) first, every request reaches the owning set; passwords made of bytes that mean something to a formatter or to the protocol (s3cr%t, 100%sure, 50%, %d%s%v, a space, CR LF, braces, a backslash) with replica reads: the handshake carries the configured password byte for byte",
	"C05": "through the running proxy also the slot assigned to the key of SINGLE-key requests and scripts (GET, SET, EVAL; thorough: EVALSHA, HSET, EXPIRE): all 256 one-byte keys, keys with CR / LF / NUL / tab / quote / high bytes inside and inside the tag; MSET lists in the assigned-slot family; EVALSHA in the quick tier",
	"C06": "sweeps over the numbers a fragment header carries: every key / value length 0..300 and around 512, 1000, 1024, 4096, 10000, 65536, 100000; every number of keys of one slot 1..130 and around 256, 500, 1000, 1024; split MSETs on their way to a node that reads slowly: more than 64 KiB parked, drained in pieces, further fragments queued meanwhile; multi-key requests over exactly 1023 / 1024 / 1025 / 2048 distinct slots of one node; several fragments for one slow node leaving in ONE vectored write that is accepted in part",
	"C07": "two split requests pipelined on one connection (MGET/DEL/MSET pairs; the first needs a node the second does not, so the later one can complete first) under every arrival order within the bound; sweeps over the numbers of the merged reply: element counts 2..130 and around 256 / 1000 / 1024, value lengths 0..300 and around the powers of ten and two up to 65537; every fragment of the request answered with a redirect first (2, 6, 9 fragments: the keys' range has just moved); the split request is the FIRST request on node connections that start with a handshake (password and / or replica reads), handshake and fragment replies in one read (MGET, DEL, MSET); one or both fragments answered with an error line (C11's scenario and oracle: the merged reply is an error)",
	"C08": "large requests at production buffer sizes (SET with a value of 1500 / 3000 / 9000 bytes, thorough up to 70000, followed by a GET) cut once or twice (thorough: three times) at offsets around the places where the inbound ring has to grow; streams made of many EMPTY arguments (DEL, MGET, RPUSH, HMSET); a request larger than the 64 KiB read buffer with further arguments behind the big one, every single cut inside the last 48 bytes; deep pipelines of 1024 / 1025 / 1100 / 2700 small requests in one piece, in pieces of 300 requests and cut mid-request; MGET of 12 keys, MSET of 8 pairs, DEL of 9 keys",
	"C09": "a never-pausing sender that also reads slowly: logical promptness of writable events (a readiness event that says 'writable' while a backlog waits is not left unused three times in a row); a split MGET whose merged reply exceeds the size limit while every fragment is within it, followed only by requests the proxy answers itself; a client with a reply backlog behind a full socket is closed by the proxy (QUIT, invalid line, FIN): the others' replies keep flowing (a spinning close is a livelock verdict); multi-key requests whose keys share a slot (one fragment carrying several keys) from an open-loop client; nobody takes the probe replies (the refresh goroutine is busy): the event loop drops reports instead of waiting for room (a plain channel send that cannot complete at once is a livelock verdict); a split MGET / DEL / MSET followed in its pipeline by 1 / 3 requests to one of its nodes with every backend read carrying all ready replies, while the only other client talks to a third node (nothing else makes the connection readable again)",
	"C10": "the slow-backend family at production buffer sizes (values of 30..1000 bytes: partial drains leave the read cursor inside the 1 KiB..64 KiB ring, later requests wrap, the ring grows); 1500 fragments for the nodes queued by ONE loop round (more than 1024 slices per vectored write, more than 256 tasks per round); replicas present and replica reads enabled: pipelines of writes (DEL, INCR, APPEND, LPUSH, EXPIRE, SETNX, HSET, SADD, ZADD, GETSET, PERSIST followed by SETs) must reach the master in order; exactly 1024 / 2048 fragments for one node; scripts and other single-key writes (EVAL, EVALSHA, SETEX, LINSERT, HSET, ZADD, SETRANGE, EXPIRE, RPUSH) pipelined in front of a SET of the same key on nodes that answer -MOVED for foreign slots; a slot in migration (ASK, stateful target): SET k v; GET k reads v",
	"C11": "the error is the FIRST reply on a cold connection that starts with AUTH / READONLY and arrives in the same read as the handshake replies; error lines of 128, 163, 343, 1100 and 5000 bytes (delivered in one read under every interleaving, and through a 64-byte read buffer); a timeout is configured: one fragment answered with an error, the sibling never; the next request reuses the request object and is in flight when the sibling's deadline passes - its own backend error must arrive verbatim; two fragments of one request on one connection answered in one read, one with a redirect and one with an error; the slow-log enabled (1 ms) with error lines that consist of a code only",
	"C12": "(f) ~350 well-formed requests with unusual content: awkward keys (empty, lone / reversed / nested braces, CR LF NUL and high bytes, a key that looks like a request) in every decoding branch, missing and surplus arguments, odd MSET pair lists, EVAL key counts absent / zero / negative / not a number / too large, command names empty / 300 bytes / with control bytes, 15..1000 arguments; (g) long invalid inputs (non-RESP lines and garbage of 1000..70000 bytes, a bad bulk length followed by kilobytes, an HTTP request); (h) with a configured password, AUTH arguments of every length 0..20 and 64 / 300 / 5000 bytes; a legal SET of more than 32 MiB that never completes, then the client hangs up and a second client is served (buffers of the top pool size class)",
	"C13": "the redirected request followed on the same connection by PING / an unknown command / QUIT; several redirects outstanding at once (two or three pipelined requests of a migrating or moved slot, redirect replies in one read or apart); two and three connections per node (ASKING and the re-sent request on the same connection); split requests whose 2 / 5 / 6 / 8 / 12 fragments are ALL redirected once; ASK to a new master that owns no slot yet and imports its first one; MOVED / ASK hops that are each answered inside the request timeout while their sum exceeds it (clock ticks between the hops, a second client's PING as the wake-up event): the final node's reply is delivered",
	"C14": "the description under ALL 720 orders of its six lines (a replica listed before its master); small clusters: two masters + one replica, one master + two replicas, two live masters + failed third + replicas, four masters without replicas; the end-to-end path UNDER LOAD (every node connection has a client request in flight whenever the 1 s ticker fires); node flags nofailover / fail? (token-wise flag test); a master whose slot columns hold only an import marker; INFO probes through the proxy's REAL redis client (replies in 7-byte pieces on every second history); the REAL boot path: first adoption from one seed / a dead seed next to a live one / a replica as the only seed / all nodes as seeds; end-to-end with a 256-byte size limit",
	"C15": "the lost connection starts with a handshake (password: lost before / after AUTH is answered, after the first request; password + replica connection); the node dies INSIDE a reply and the next reply arrives in pieces over a new connection; two connections per node; the lost connection still has unsent request bytes parked for a node that stopped reading; a client with a reply backlog is closed; a client with a pending request disconnects and only THEN the node connection is lost (or its redirect cannot be followed); the node is lost for good (connection closed or reset AND every later dial refused): later requests routed to it are answered with an error, requests to other nodes are served",
	"C16": "the late reply of the timed-out request is -MOVED / -ASK / an error; the timed-out request (GET, split MGET, a GET that was redirected and stalls at the target) is followed by PING / unknown command / QUIT; the same while the proxy is busy (the clock passes the deadline without epoll_wait ever reporting 'no events'); two connections per node; a whole write batch (2 / 4 requests) to a silent node; a client that disconnects (FIN / RST) before the deadline with another client's request queued behind its request: that client gets its timeout error and a further reply; slow redirect hops (as C13)",
	"C17": "argument counts far from the legal ones for every documented name (16..514, thorough ..1025: around the powers of two where a narrow counter wraps, and the legal count + 65536 for six commands); production-size limit (6 MiB): arguments of 1 MiB, 1 MiB + 1, 1.5 MiB are served, a request one byte over the limit gets the too-large error and the connection stays usable; every reply shape (bulk, error line, status line, array) at L-1, L, L+1, 3L as the reply to a single-key request and to one fragment of a split MGET / DEL / MSET; AUTH (40 arguments spread over all slots) and PING on a topology with an unowned range, with and without a configured password; the limit as CONFIGURED, through the real core.Run (option defaulting included): limits 40 / 64 / 200 / 1000 / 1023 / 1024 / 1025 / 5000 bytes and not configured (6 MiB): a SET of exactly the limit is served, one a byte longer is answered with the too-large error and never forwarded, the connection stays usable",
	"C18": "seven further file contents as states (duplicate lines, more lines than distinct addresses, the foreign address and 127.0.0.10 listed, reversed order); six probing clients incl. 127.0.0.10 and 27.0.0.1 (a listed address is a proper prefix / suffix of theirs); in histories of two and more contents the probing clients connect before the last change as well (judged by the content in force then) and again after it; file contents in which a key is ABSENT (enable only, list only, empty file, comment only); the harness keeps one watcher object across reloads, as LoopIPWhiteList does; the real fsnotify watcher run also contains reloads that FAIL between two edits (text that is not YAML; the file moved away and a new one moved into place a moment later): the admitted set equals the final file all the same",
	"C19": "replies of 64 KiB and more to a slow reader at production sizes (ring part + overflow list) while request objects are recycled; buffers released by a connection that died inside a message are clean when the next connection uses them; 14 x 1000-byte and 8 x 2500-byte replies to a slow reader (the ring grows step by step while wrapped); 5 x 40000-byte fragments to a slow node; more than 64 KiB parked for a slow client, a partial drain, then more replies; eight local replies to a slow reader (conn.write path); a request cut after 1..7 bytes (inside the array-header line / the first bulk-header line), the rest arriving after the proxy has read the first piece (GET, MGET, SET); an incomplete request of more than 32 MiB whose client hangs up",
	"C20": "reads interleaved with other traffic in a fixed period (a write, a PING, a read of another master's slot; periods 2..5, 2 and 3 replicas): over all random outcomes every healthy replica serves some read; a master and its replica swap roles (pools whose role flips keep serving); node descriptions that list replicas before their masters; a replica that leaves the description for one update (flagged fail? / absent) and returns at the same address; every second scenario runs against nodes that describe themselves as Redis 7 (INFO carries async_loading:0 after loading:0)",
}

// ---------------------------------------------------------------------------------------------
// topologies

const (
	AddrA  = "10.0.0.1:7000"
	AddrB  = "10.0.0.2:7000"
	AddrC  = "10.0.0.3:7000"
	AddrA1 = "10.0.1.1:7000"
	AddrA2 = "10.0.1.2:7000"
	AddrB1 = "10.0.2.1:7000"
	AddrD  = "10.0.0.4:7000"
)

// T3m: three masters, thirds.
func T3m() []world.NodeSpec {
	return []world.NodeSpec{
		{Name: "aaa", Addr: AddrA, Slots: [][2]int{{0, 5460}}},
		{Name: "bbb", Addr: AddrB, Slots: [][2]int{{5461, 10922}}},
		{Name: "ccc", Addr: AddrC, Slots: [][2]int{{10923, 16383}}},
	}
}

// T3: three masters, A has two replicas, B one, C none.
func T3() []world.NodeSpec {
	return append(T3m(),
		world.NodeSpec{Name: "a1", Addr: AddrA1, Master: "aaa"},
		world.NodeSpec{Name: "a2", Addr: AddrA2, Master: "aaa"},
		world.NodeSpec{Name: "b1", Addr: AddrB1, Master: "bbb"},
	)
}

// Tgap: C only owns 10923-12000; 12001-16383 is unowned. A fourth node keeps the node count >= 3.
func Tgap() []world.NodeSpec {
	return []world.NodeSpec{
		{Name: "aaa", Addr: AddrA, Slots: [][2]int{{0, 5460}}},
		{Name: "bbb", Addr: AddrB, Slots: [][2]int{{5461, 10922}}},
		{Name: "ccc", Addr: AddrC, Slots: [][2]int{{10923, 12000}}},
	}
}

// keysOn[i] = keys whose spec slot lies in the i-th third (brace-free, so that the proxy's and the
// specification's slot function agree irrespective of C05).
var keysA, keysB, keysC, keysGap []string

func init() {
	for i := 0; len(keysA) < 12 || len(keysB) < 12 || len(keysC) < 12 || len(keysGap) < 6; i++ {
		k := fmt.Sprintf("k%d", i)
		s := world.SpecSlot([]byte(k))
		switch {
		case s <= 5460:
			keysA = append(keysA, k)
		case s <= 10922:
			keysB = append(keysB, k)
		case s <= 12000:
			keysC = append(keysC, k)
		default:
			keysGap = append(keysGap, k)
			keysC = append(keysC, k)
		}
	}
}

// ---------------------------------------------------------------------------------------------
// request kinds and their reference replies

type Req struct {
	Kind   string
	Bytes  []byte
	Expect []byte
	Local  bool
	Closes bool
}

func GetReq(key string) Req {
	return Req{Kind: "GET", Bytes: world.Cmd("get", key), Expect: world.ValueOf([]byte(key))}
}
func SetReq(key, val string) Req {
	return Req{Kind: "SET", Bytes: world.Cmd("set", key, val), Expect: []byte(world.ROK)}
}
func MGetReq(keys ...string) Req {
	exp := []byte(fmt.Sprintf("*%d\r\n", len(keys)))
	for _, k := range keys {
		exp = append(exp, world.ValueOf([]byte(k))...)
	}
	return Req{Kind: "MGET", Bytes: world.Cmd(append([]string{"mget"}, keys...)...), Expect: exp}
}
func DelReq(keys ...string) Req {
	n := 0
	for _, k := range keys {
		n += world.DelCount([]byte(k))
	}
	return Req{Kind: "DEL", Bytes: world.Cmd(append([]string{"del"}, keys...)...), Expect: []byte(fmt.Sprintf(":%d\r\n", n))}
}
func MSetReq(kv ...string) Req {
	return Req{Kind: "MSET", Bytes: world.Cmd(append([]string{"mset"}, kv...)...), Expect: []byte(world.ROK)}
}
func PingReq() Req {
	return Req{Kind: "PING", Bytes: world.Cmd("PING"), Expect: []byte(world.RPong), Local: true}
}
func QuitReq() Req {
	return Req{Kind: "QUIT", Bytes: world.Cmd("quit"), Expect: []byte(world.ROK), Local: true, Closes: true}
}
func UnknownReq() Req {
	return Req{Kind: "UNK", Bytes: world.Cmd("flushall"), Expect: []byte(world.RErrUnknownCmd), Local: true}
}
func ArityReq() Req {
	return Req{Kind: "ARITY", Bytes: world.Cmd("get", "a", "b"), Expect: []byte(world.RErrArgs), Local: true}
}
func AuthReq(pw, configured string) Req {
	exp := world.ROK
	if configured == "" {
		exp = world.RErrAuthNoPw
	} else if pw != configured {
		exp = world.RErrAuthBad
	}
	return Req{Kind: "AUTH", Bytes: world.Cmd("auth", pw), Expect: []byte(exp), Local: true}
}

// ClientOf builds a client from requests; oneChunk: whole pipeline in one chunk, else one per request.
func ClientOf(reqs []Req, oneChunk bool) world.ClientSpec {
	cs := world.ClientSpec{}
	var all []byte
	for _, r := range reqs {
		cs.Reqs = append(cs.Reqs, r.Bytes)
		cs.Expect = append(cs.Expect, r.Expect)
		if r.Closes {
			cs.ExpectEOF = true
		}
		if oneChunk {
			all = append(all, r.Bytes...)
		} else {
			cs.Chunks = append(cs.Chunks, world.Chunk{Data: r.Bytes})
		}
	}
	if oneChunk {
		cs.Chunks = []world.Chunk{{Data: all}}
	}
	return cs
}

// SplitAt cuts data into chunks at the given offsets.
func SplitAt(data []byte, cuts ...int) []world.Chunk {
	var out []world.Chunk
	prev := 0
	for _, c := range cuts {
		if c > prev && c < len(data) {
			out = append(out, world.Chunk{Data: data[prev:c]})
			prev = c
		}
	}
	return append(out, world.Chunk{Data: data[prev:]})
}

// ---------------------------------------------------------------------------------------------
// the reply-stream oracle shared by C01 / C09 / C10 / C13 ...

type StreamOpts struct {
	Kinds        [][]string // per client, per request: kind names (for signatures)
	LocalIdx     func(ci, j int) bool
	AllowMissing bool                   // completeness is not demanded (safety-only checks)
	AnyError     func(ci, j int) bool   // request j may be answered by any error reply
	Alt          func(ci, j int) []byte // per-execution second acceptable reply (nil: none)
}

// CheckStreams compares every client's received bytes with the reference reply sequence.
func CheckStreams(w *world.World, o StreamOpts) []world.Violation {
	var vs []world.Violation
	for ci, c := range w.Clients {
		exp := c.Spec.Expect
		replies, rest, malformed := world.SplitReplies(c.Received)
		kind := func(j int) string {
			if o.Kinds != nil && ci < len(o.Kinds) && j < len(o.Kinds[ci]) {
				return o.Kinds[ci][j]
			}
			return "?"
		}
		if malformed {
			vs = append(vs, world.Violation{Sig: "corrupt", Msg: fmt.Sprintf("client %d: stream does not parse as RESP replies: %q", ci, c.Received)})
			continue
		}
		bad := false
		for j, r := range replies {
			if j >= len(exp) {
				sig := "extra-bytes"
				for _, e := range exp {
					if bytes.Equal(e, r) {
						sig = "duplicate"
					}
				}
				vs = append(vs, world.Violation{Sig: sig, Msg: fmt.Sprintf("client %d: %d replies for %d requests; extra reply %q", ci, len(replies), len(exp), r)})
				bad = true
				break
			}
			if exp[j] == nil {
				continue
			}
			if o.AnyError != nil && o.AnyError(ci, j) && world.IsError(r) {
				continue
			}
			if bytes.Equal(exp[j], r) {
				continue
			}
			if alt, ok := c.Spec.ExpectAlt[j]; ok && bytes.Equal(alt, r) {
				continue
			}
			if o.Alt != nil {
				if alt := o.Alt(ci, j); alt != nil && bytes.Equal(alt, r) {
					continue
				}
			}
			sig := "corrupt"
			for k := range exp {
				if k > j && bytes.Equal(exp[k], r) && o.LocalIdx != nil && o.LocalIdx(ci, k) {
					sig = "local-overtake:" + kind(k)
					break
				}
			}
			if sig == "corrupt" {
				for k := range exp {
					if k != j && bytes.Equal(exp[k], r) {
						sig = "forwarded-swap"
						break
					}
				}
			}
			vs = append(vs, world.Violation{Sig: sig, Msg: fmt.Sprintf("client %d: reply %d is %q, reference %q (request %q)", ci, j, r, exp[j], reqAt(c, j))})
			bad = true
			break
		}
		if bad {
			continue
		}
		if len(rest) > 0 {
			vs = append(vs, world.Violation{Sig: "partial-reply", Msg: fmt.Sprintf("client %d: trailing partial reply %q", ci, rest)})
			continue
		}
		if len(replies) < len(exp) && !o.AllowMissing && !c.PeerClosed {
			sig := "missing-tail"
			if c.ProxyClosed {
				sig = "closed-with-pending"
				if c.Spec.ExpectEOF {
					sig = "quit-drops-pending"
				}
			}
			vs = append(vs, world.Violation{Sig: sig, Msg: fmt.Sprintf("client %d: only %d of %d replies arrived (received %q); next missing is for %q", ci, len(replies), len(exp), c.Received, reqAt(c, len(replies)))})
			continue
		}
		if c.Spec.ExpectEOF && !c.ProxyClosed && len(replies) == len(exp) {
			vs = append(vs, world.Violation{Sig: "quit-not-closed", Msg: fmt.Sprintf("client %d: QUIT answered but connection left open", ci)})
		}
		if !c.Spec.ExpectEOF && c.ProxyClosed && !c.PeerClosed && len(replies) == len(exp) && !o.AllowMissing {
			vs = append(vs, world.Violation{Sig: "unexpected-close", Msg: fmt.Sprintf("client %d: proxy closed a healthy connection", ci)})
		}
	}
	return vs
}

func reqAt(c *world.Client, j int) []byte {
	if j < len(c.Spec.Reqs) {
		return c.Spec.Reqs[j]
	}
	return nil
}

// SlowMultiFlush: a slow reader and several replies released by ONE vectored write: the head request of the pipeline is
// answered last (its node answers only after a clock tick), so the replies of the requests behind it are complete and
// queued when it completes; the write of the whole batch is then answered short / EAGAIN by the write oracle.
// sizes: payload sizes of the three replies (head first).
func SlowMultiFlush(name string, sizes [3]int, bound int) *world.Scenario {
	sc := &world.Scenario{Nodes: T3m(), Bound: bound, Family: "slow-multi-flush", Horizon: 400, WriteOracle: true, WriteCap: 64,
		Ticks: []time.Duration{time.Millisecond}}
	ka, kb, kb2 := keysA[0], keysB[0], keysB[1]
	mk := func(k string, j, sz int) Req {
		r := GetReq(k)
		r.Expect = world.Bulk(fmt.Sprintf("%c", 'a'+j) + strings.Repeat(fmt.Sprintf("%d", j), sz))
		return r
	}
	reqs := []Req{PingReq(), mk(ka, 0, sizes[0]), mk(kb, 1, sizes[1]), mk(kb2, 2, sizes[2])}
	replyOf := map[string][]byte{ka: reqs[1].Expect, kb: reqs[2].Expect, kb2: reqs[3].Expect}
	cs := ClientOf(reqs, false)
	cs.Chunks = []world.Chunk{{Data: reqs[0].Bytes}, {Data: append(append(append([]byte{}, reqs[1].Bytes...), reqs[2].Bytes...), reqs[3].Bytes...), WaitReplies: 1}}
	cs.Slow = true
	sc.Clients = []world.ClientSpec{cs}
	sc.Reply = func(w *world.World, bc *world.BConn, args [][]byte) ([]byte, int) {
		if len(args) > 1 {
			if r, ok := replyOf[string(args[1])]; ok {
				if string(args[1]) == ka {
					return r, 1 // the head request's node answers after the tick
				}
				return r, 0
			}
		}
		return nil, 0
	}
	// the clock only moves once the other replies have been read by the proxy
	sc.TickGate = func(w *world.World) bool {
		n := 0
		for _, bc := range w.BConns {
			for i, rec := range bc.Log {
				if len(rec.Args) > 1 && (string(rec.Args[1]) == kb || string(rec.Args[1]) == kb2) && bc.ReadByProxy(i) {
					n++
				}
			}
		}
		return n == 2
	}
	sc.Name = fmt.Sprintf("%s/slow-multi-flush/replies%v/d%d", name, sizes, bound)
	sc.Check = func(w *world.World) []world.Violation {
		vs := CheckStreams(w, StreamOpts{})
		for i := range vs {
			if vs[i].Sig == "corrupt" || vs[i].Sig == "forwarded-swap" {
				vs[i].Sig = "slow-reader-stream-corrupt"
			}
		}
		return vs
	}
	return sc
}

// BackendsWellFormed: nothing a node would reject as a protocol error was received by any node.
func BackendsWellFormed(w *world.World) []world.Violation {
	var vs []world.Violation
	for _, bc := range w.BConns {
		if bc.Malformed != "" {
			vs = append(vs, world.Violation{Sig: "backend-received-malformed", Msg: fmt.Sprintf("node %s conn %d received bytes that are not a well-formed request: %q", bc.Addr, bc.ID, bc.Malformed)})
		}
	}
	return vs
}

// SeqReplay: per property, re-evaluates one recorded E2 input; returns a description and whether it still violates.
var SeqReplay = map[string]func(input string) (string, bool){}

// ---------------------------------------------------------------------------------------------
// state left behind by a connection that died in the middle of a message

// AbortedNeighbour: client 1 sends a proper prefix of a request and disconnects (FIN or RST) while the prefix is parked
// in its inbound buffer; only after the proxy has closed that connection does client 0 (the victim) send its stream,
// cut into chunks, over a fresh connection. Whatever the dead connection left behind (pooled buffers, descriptor number,
// pooled request objects) must not leak into the victim's stream.
func AbortedNeighbour(prefix []byte, rst bool, victim []Req, cuts []int, readCap int) *world.Scenario {
	sc := &world.Scenario{Nodes: T3m(), Bound: 0, Family: "aborted-neighbour", Horizon: 2000, ReadCap: readCap, WriteCap: 64, ReuseFds: true, InputEnum: true}
	var all []byte
	cs := world.ClientSpec{}
	for _, r := range victim {
		all = append(all, r.Bytes...)
		cs.Reqs = append(cs.Reqs, r.Bytes)
		cs.Expect = append(cs.Expect, r.Expect)
	}
	cs.Chunks = SplitAt(all, cuts...)
	cs.Chunks[0].Gate = func(w *world.World) bool { return len(w.Clients) > 1 && w.Clients[1].Sock.Closed }
	ab := world.ClientSpec{Chunks: []world.Chunk{{Data: prefix}}, CloseAfter: 1, CloseRST: rst}
	sc.Clients = []world.ClientSpec{cs, ab}
	return sc
}

// BackendLossMidReply: node A dies after delivering the first bytes of a reply (the rest is lost with the connection);
// the proxy answers the request with an error, redials on the next request, and that request's reply arrives cut as well.
func BackendLossMidReply(kind string, cut int, bound int) *world.Scenario {
	r0, r1 := GetReq(keysA[0]), GetReq(keysA[5])
	cs := ClientOf([]Req{r0}, true)
	cs.Chunks = append(cs.Chunks, world.Chunk{Data: r1.Bytes, WaitReplies: 1})
	cs.Reqs = append(cs.Reqs, r1.Bytes)
	cs.Expect = append(cs.Expect, r1.Expect)
	return &world.Scenario{Nodes: T3m(), Bound: bound, Family: "backend-loss-mid-reply", Horizon: 400, ReplyCuts: []int{cut}, ReuseFds: true,
		Clients: []world.ClientSpec{cs}, Faults: []world.Fault{{Kind: kind, Addr: AddrA, AfterW: 1}}}
}

// ---------------------------------------------------------------------------------------------
// production-size replies parked for a slow reader while the request objects are recycled

// patterned payload of n bytes that names its owner at every offset (so foreign bytes are recognisable)
func patterned(tag string, n int) string {
	var sb strings.Builder
	for i := 0; sb.Len() < n; i++ {
		sb.WriteString(fmt.Sprintf("<%s@%d>", tag, sb.Len()))
	}
	return sb.String()[:n]
}

// BigSlowRecycle: buffers at their production sizes (64 KiB). Client 0 reads slowly: after a PING it pipelines GETs whose
// replies have the given sizes; the first flush meets a full socket (write oracle), so the replies are parked in the
// outbound buffer (ring part up to 64 KiB, the rest in the overflow list) while their request objects go back to the
// pool. Client 1 then pipelines two GETs (replies of bSize bytes) that reuse those objects while the backlog is still
// queued; only then does the slow client drain. Every byte must reach its own client.
func BigSlowRecycle(name string, sizes []int, bSize int, bound int) *world.Scenario {
	sc := &world.Scenario{Nodes: T3m(), Bound: bound, Family: "big-slow-recycle", Horizon: 3000, WriteOracle: true,
		ReadCap: 65536, WriteCap: 65536, MaxLen: 8 << 20}
	replyOf := map[string][]byte{}
	reqs := []Req{PingReq()}
	for j, sz := range sizes {
		k := keysA[j]
		r := GetReq(k)
		r.Expect = world.Bulk(patterned("A"+k, sz))
		replyOf[k] = r.Expect
		reqs = append(reqs, r)
	}
	cs := ClientOf(reqs, false)
	var rest []byte
	for _, r := range reqs[1:] {
		rest = append(rest, r.Bytes...)
	}
	cs.Chunks = []world.Chunk{{Data: reqs[0].Bytes}, {Data: rest, WaitReplies: 1}}
	cs.Slow = true
	var breqs []Req
	var ball []byte
	for j := 0; j < 2; j++ {
		k := keysB[j]
		r := GetReq(k)
		r.Expect = world.Bulk(patterned("B"+k, bSize))
		replyOf[k] = r.Expect
		breqs = append(breqs, r)
		ball = append(ball, r.Bytes...)
	}
	cb := ClientOf(breqs, true)
	nA := len(sizes)
	// the second client only speaks once the proxy has read every reply meant for the slow client
	cb.Chunks[0].Gate = func(w *world.World) bool {
		n := 0
		for _, bc := range w.BConns {
			for i, rec := range bc.Log {
				if len(rec.Args) > 1 && bc.Addr == AddrA && world.Lower(rec.Args[0]) == "get" && bc.ReadByProxy(i) {
					n++
				}
			}
		}
		return n >= nA
	}
	sc.Clients = []world.ClientSpec{cs, cb}
	sc.Reply = func(w *world.World, bc *world.BConn, args [][]byte) ([]byte, int) {
		if len(args) > 1 {
			if r, ok := replyOf[string(args[1])]; ok {
				return r, 0
			}
		}
		return nil, 0
	}
	sc.Name = fmt.Sprintf("%s/big-slow-recycle/replies%v/then%d/d%d", name, sizes, bSize, bound)
	sc.Check = func(w *world.World) []world.Violation {
		vs := CheckStreams(w, StreamOpts{})
		for i := range vs {
			if len(vs[i].Msg) > 600 {
				vs[i].Msg = vs[i].Msg[:600] + "..."
			}
		}
		return vs
	}
	return sc
}

// ---------------------------------------------------------------------------------------------
// batches larger than one vectored write (the proxy writes at most 1024 slices per writev)

// BigBatch: production buffer sizes. One client sends a GET whose node answers late (after a clock tick), then n GETs
// (n > 1024, keys of nodes B and C) in ONE chunk, so that n fragments are queued to the backends by one loop round and n
// completed replies pile up behind the unanswered head; when the head is answered all n+1 replies are flushed at once.
// slow: the client also reads slowly, so the flush lands in the outbound buffer and is drained by writable events.
// BigBatchOneNode: all n requests behind the head go to node B (exactly n fragments for one connection in one round).
func BigBatchOneNode(name string, n int, bound int) *world.Scenario {
	bigBatchOneNode = true
	sc := BigBatch(name, n, false, bound)
	bigBatchOneNode = false
	sc.Name = fmt.Sprintf("%s/big-batch/%d-for-one-node-behind-stalled-head/d%d", name, n, bound)
	return sc
}

var bigBatchOneNode bool

func BigBatch(name string, n int, slow bool, bound int) *world.Scenario {
	sc := &world.Scenario{Nodes: T3m(), Bound: bound, Family: "big-batch", Horizon: 20000, ReadCap: 65536, WriteCap: 65536, MaxLen: 1 << 20,
		Ticks: []time.Duration{time.Millisecond}, WriteOracle: slow}
	head := GetReq(keysA[0])
	reqs := []Req{PingReq(), head}
	var rest []byte
	for j := 0; j < n; j++ {
		var k string
		if j%3 == 2 && !bigBatchOneNode {
			k = fmt.Sprintf("{%s}%d", keysC[1], j)
		} else {
			k = fmt.Sprintf("{%s}%d", keysB[1], j)
		}
		r := GetReq(k)
		reqs = append(reqs, r)
		rest = append(rest, r.Bytes...)
	}
	// two more requests once everything has been answered (whatever the big flush left behind shows up here)
	tail := []Req{GetReq(keysC[3]), GetReq(keysA[4])}
	reqs = append(reqs, tail...)
	cs := ClientOf(reqs, false)
	cs.Chunks = []world.Chunk{{Data: reqs[0].Bytes}, {Data: append(append([]byte{}, head.Bytes...), rest...), WaitReplies: 1},
		{Data: tail[0].Bytes, WaitReplies: n + 2}, {Data: tail[1].Bytes, WaitReplies: n + 3}}
	cs.Slow = slow
	sc.Clients = []world.ClientSpec{cs}
	sc.Reply = func(w *world.World, bc *world.BConn, args [][]byte) ([]byte, int) {
		if hasKey(args, keysA[0]) {
			return world.ValueOf([]byte(keysA[0])), 1
		}
		return nil, 0
	}
	// the clock only moves once every other reply has been read by the proxy
	sc.TickGate = func(w *world.World) bool {
		cnt := 0
		for _, bc := range w.BConns {
			if bc.Addr == AddrA {
				continue
			}
			for i := range bc.Log {
				if bc.ReadByProxy(i) {
					cnt++
				}
			}
		}
		return cnt >= n
	}
	sc.Name = fmt.Sprintf("%s/big-batch/%d-behind-stalled-head/slow=%v/d%d", name, n, slow, bound)
	sc.Check = func(w *world.World) []world.Violation {
		vs := CheckStreams(w, StreamOpts{})
		for i := range vs {
			if len(vs[i].Msg) > 500 {
				vs[i].Msg = vs[i].Msg[:500] + "..."
			}
		}
		// per node: the fragments arrive in the order the client sent them
		for _, bc := range w.BConns {
			last := -1
			for _, rec := range bc.Log {
				if len(rec.Args) < 2 || world.Lower(rec.Args[0]) != "get" {
					continue
				}
				k := string(rec.Args[1])
				if i := strings.LastIndexByte(k, '}'); i >= 0 {
					var j int
					fmt.Sscanf(k[i+1:], "%d", &j)
					if j < last {
						vs = append(vs, world.Violation{Sig: "per-node-order-violated", Msg: fmt.Sprintf("node %s received request #%d after #%d", bc.Addr, j, last)})
						break
					}
					last = j
				}
			}
		}
		return append(vs, BackendsWellFormed(w)...)
	}
	return sc
}

// ApplyConfigVariant: a third of all scenarios (chosen by a hash of the scenario name, so that replays agree) run with
// log level "debug" (Debug lines formatted, Debug closures evaluated) and the slow-log enabled (threshold 1 ms): two
// configuration switches that execute additional proxy code but must not change any observable behaviour.
func ApplyConfigVariant(sc *world.Scenario) {
	if hashStr(sc.Name)%3 == 1 && !sc.NoVariant && sc.MaxLen < 1<<21 {
		sc.DebugLog = true
		if sc.SlowlogMs == 0 {
			sc.SlowlogMs = 1
		}
	}
}

// ---------------------------------------------------------------------------------------------
// a connection is closed while the proxy still holds unsent bytes for it and the peer does not take them

// CloseClientWithBacklog: client 0 reads slowly; a reply is parked in its outbound buffer behind a full socket (write
// oracle); then the proxy closes that client (how = "quit": QUIT arrives, "garbage": an invalid line arrives, "fin": the
// client half-closes) while the socket is still full. A second client is then served normally: closing must not hang.
func CloseClientWithBacklog(name, how string, bound int) *world.Scenario {
	sc := &world.Scenario{Nodes: T3m(), Bound: bound, Family: "close-with-backlog", Horizon: 400, WriteOracle: true, WriteCap: 64}
	ka := keysA[0]
	big := GetReq(ka)
	big.Expect = world.Bulk(patterned("A", 300))
	reqs := []Req{PingReq(), big}
	cs := ClientOf(reqs, false)
	cs.Chunks[1].WaitReplies = 1
	cs.Slow = true
	full := func(w *world.World) bool { return w.Clients[0].Sock != nil && w.Clients[0].Sock.Unwritable }
	switch how {
	case "quit":
		q := QuitReq()
		cs.Chunks = append(cs.Chunks, world.Chunk{Data: q.Bytes, Gate: full})
		cs.Reqs = append(cs.Reqs, q.Bytes)
		cs.Expect = append(cs.Expect, q.Expect)
	case "garbage":
		cs.Chunks = append(cs.Chunks, world.Chunk{Data: []byte("hello world\r\n"), Gate: full})
	case "fin":
		cs.Chunks = append(cs.Chunks, world.Chunk{Data: []byte("*1\r\n"), Gate: full})
		cs.CloseAfter = 3
	}
	wit := ClientOf([]Req{GetReq(keysB[0]), GetReq(keysA[1])}, false)
	wit.Chunks[0].Gate = func(w *world.World) bool { return w.Clients[0].Sock != nil && w.Clients[0].Sock.Closed }
	wit.Chunks[1].WaitReplies = 1
	sc.Clients = []world.ClientSpec{cs, wit}
	sc.Reply = func(w *world.World, bc *world.BConn, args [][]byte) ([]byte, int) {
		if hasKey(args, ka) {
			return big.Expect, 0
		}
		return nil, 0
	}
	sc.Name = fmt.Sprintf("%s/close-with-backlog/client-%s/d%d", name, how, bound)
	sc.Check = func(w *world.World) []world.Violation {
		// the witness: complete and correct, whenever the first client was closed at all
		c0, c1 := w.Clients[0], w.Clients[1]
		if !c0.Sock.Closed {
			return nil // the backlog never built up in this execution (no EAGAIN was chosen)
		}
		rs, rest, mal := world.SplitReplies(c1.Received)
		if mal || len(rest) > 0 || len(rs) != 2 || !bytes.Equal(rs[0], c1.Spec.Expect[0]) || !bytes.Equal(rs[1], c1.Spec.Expect[1]) {
			return []world.Violation{{Sig: "others-stalled-after-close-with-backlog", Msg: fmt.Sprintf("a client with a reply backlog behind a full socket was closed (%s); afterwards another client received %q, expected %q", how, c1.Received, bytes.Join(c1.Spec.Expect, nil))}}
		}
		// what the closed client did receive is a prefix of its reply stream
		want := bytes.Join(c0.Spec.Expect, nil)
		if !bytes.HasPrefix(want, c0.Received) {
			return []world.Violation{{Sig: "corrupt", Msg: fmt.Sprintf("closed client received %q, which is not a prefix of %q", c0.Received, want)}}
		}
		return nil
	}
	return sc
}

// CloseBackendWithBacklog: node A reads slowly, so request bytes are parked in the proxy's outbound buffer for it; then
// the node resets / closes the connection while the backlog is still there. Every request gets an answer (an error for
// those that were lost), later requests are served over a new connection, the loop does not hang.
func CloseBackendWithBacklog(name, kind string, bound int) *world.Scenario {
	sc := &world.Scenario{Nodes: T3m(), Bound: bound, Family: "close-with-backlog", Horizon: 400, WriteOracle: true, SlowBackends: true, WriteCap: 64,
		Ticks: []time.Duration{150 * time.Millisecond, 150 * time.Millisecond}}
	v := patterned("V", 200)
	reqs := []Req{GetReq(keysA[3]), SetReq(keysA[0], v), SetReq(keysA[1], v), GetReq(keysB[0])}
	cs := ClientOf(reqs, false)
	cs.Chunks[1].WaitReplies = 1
	follow := GetReq(keysA[2])
	cs.Chunks = append(cs.Chunks, world.Chunk{Data: follow.Bytes, WaitTicks: 2})
	cs.Reqs = append(cs.Reqs, follow.Bytes)
	cs.Expect = append(cs.Expect, follow.Expect)
	sc.Clients = []world.ClientSpec{cs}
	sc.Faults = []world.Fault{{Kind: kind, Addr: AddrA, AfterW: 1, Gate: func(w *world.World) bool {
		for _, bc := range w.BConns {
			if bc.Addr == AddrA && !bc.Sock.Closed && bc.Sock.Unwritable {
				return true
			}
		}
		return false
	}}}
	sc.Name = fmt.Sprintf("%s/close-with-backlog/%s/d%d", name, kind, bound)
	sc.Check = func(w *world.World) []world.Violation {
		c := w.Clients[0]
		if c.ProxyClosed {
			return nil
		}
		rs, rest, mal := world.SplitReplies(c.Received)
		if mal || len(rest) > 0 {
			return []world.Violation{{Sig: "corrupt", Msg: fmt.Sprintf("client stream %q", c.Received)}}
		}
		for j, r := range rs {
			if j < len(c.Spec.Expect) && !bytes.Equal(r, c.Spec.Expect[j]) && !world.IsError(r) {
				return []world.Violation{{Sig: "wrong-reply-after-loss", Msg: fmt.Sprintf("request %d answered %q, reference %q", j, r, c.Spec.Expect[j])}}
			}
		}
		if len(rs) < len(c.Spec.Expect) {
			return []world.Violation{{Sig: "lost-on-backend-close", Msg: fmt.Sprintf("a node connection with unsent request bytes was lost; the client has %d of %d replies at the end", len(rs), len(c.Spec.Expect))}}
		}
		return nil
	}
	return sc
}

// ---------------------------------------------------------------------------------------------
// backlogs of many medium-sized messages at production buffer sizes (ring grows 1 KiB -> 2 -> 4 -> 5 -> 6.25 -> ... KiB)

// SlowClientManyReplies: a slow client pipelines n GETs whose replies have `size` bytes each; the replies arrive one by
// one, every flush is a write-oracle choice (all / EAGAIN / 1 byte / half / all but one), so the outbound ring fills,
// is drained in part (read cursor off zero), wraps and has to grow while it is wrapped. Byte-exact stream at the end.
func SlowClientManyReplies(name string, n, size, bound int) *world.Scenario {
	sc := &world.Scenario{Nodes: T3m(), Bound: bound, Family: "slow-client-many-replies", Horizon: 2000, WriteOracle: true,
		ReadCap: 65536, WriteCap: 65536, NoVariant: true}
	reqs := []Req{PingReq()}
	replyOf := map[string][]byte{}
	var rest []byte
	for j := 0; j < n; j++ {
		k := fmt.Sprintf("{%s}%d", keysA[0], j)
		r := GetReq(k)
		r.Expect = world.Bulk(patterned(fmt.Sprintf("r%d", j), size+j*7%13))
		replyOf[k] = r.Expect
		reqs = append(reqs, r)
		rest = append(rest, r.Bytes...)
	}
	cs := ClientOf(reqs, false)
	cs.Chunks = []world.Chunk{{Data: reqs[0].Bytes}, {Data: rest, WaitReplies: 1}}
	cs.Slow = true
	sc.Clients = []world.ClientSpec{cs}
	sc.Reply = func(w *world.World, bc *world.BConn, args [][]byte) ([]byte, int) {
		if len(args) > 1 {
			if r, ok := replyOf[string(args[1])]; ok {
				return r, 0
			}
		}
		return nil, 0
	}
	sc.Name = fmt.Sprintf("%s/slow-client-many-replies/%dx%dB/d%d", name, n, size, bound)
	sc.Check = func(w *world.World) []world.Violation {
		vs := CheckStreams(w, StreamOpts{})
		for i := range vs {
			if len(vs[i].Msg) > 500 {
				vs[i].Msg = vs[i].Msg[:500] + "..."
			}
		}
		return vs
	}
	return sc
}

// SlowBackendOverflow: node A reads slowly while one client pipelines split MSETs whose fragments for A carry `size`-byte
// values: more than 64 KiB is parked for A (ring part full, rest in the overflow list), drained in part by writable
// events, and further fragments are queued before the backlog is gone. The node must receive exactly the fragments, in
// order, well-formed.
func SlowBackendOverflow(name string, n, size, bound int) *world.Scenario {
	sc := &world.Scenario{Nodes: T3m(), Bound: bound, Family: "slow-backend-overflow", Horizon: 3000, WriteOracle: true, SlowBackends: true,
		ReadCap: 65536, WriteCap: 65536, MaxLen: 8 << 20, NoVariant: true}
	var reqs []Req
	for j := 0; j < n; j++ {
		ka, kb := fmt.Sprintf("{%s}%d", keysA[0], j), fmt.Sprintf("{%s}%d", keysB[0], j)
		reqs = append(reqs, MSetReq(ka, patterned(fmt.Sprintf("a%d", j), size+j), kb, "b"))
	}
	reqs = append(reqs, GetReq(keysA[1]))
	cs := ClientOf(reqs, false)
	// the later requests only arrive once the proxy has written fragment 0 and at least half of fragment 1 to node A: on
	// the paths where a backlog built up, part of it is then still waiting (the condition becomes true on every path)
	need := size + size/2
	third := func(w *world.World) bool {
		for _, bc := range w.BConns {
			if bc.Addr == AddrA && bc.Sock.TxTotal >= need {
				return true
			}
		}
		return false
	}
	for j := 3; j < len(cs.Chunks); j++ {
		cs.Chunks[j].Gate = third
	}
	sc.Clients = []world.ClientSpec{cs}
	sc.Name = fmt.Sprintf("%s/slow-backend-overflow/%dx%dB/d%d", name, n, size, bound)
	sc.Check = func(w *world.World) []world.Violation {
		if vs := BackendsWellFormed(w); len(vs) > 0 {
			if len(vs[0].Msg) > 500 {
				vs[0].Msg = vs[0].Msg[:500] + "..."
			}
			return vs
		}
		// node A: the MSET fragments in request order, each with its own value
		j := 0
		for _, rec := range w.DataCmds(AddrA) {
			if world.Lower(rec.Args[0]) != "mset" {
				continue
			}
			wantK, wantV := fmt.Sprintf("{%s}%d", keysA[0], j), patterned(fmt.Sprintf("a%d", j), size+j)
			if len(rec.Args) != 3 || string(rec.Args[1]) != wantK || string(rec.Args[2]) != wantV {
				return []world.Violation{{Sig: "fragment-malformed", Msg: fmt.Sprintf("node A: fragment #%d should be MSET %s <%d bytes>, received key %q with %d value bytes", j, wantK, len(wantV), rec.Args[1], len(rec.Args[len(rec.Args)-1]))}}
			}
			j++
		}
		vs := CheckStreams(w, StreamOpts{})
		for i := range vs {
			if len(vs[i].Msg) > 400 {
				vs[i].Msg = vs[i].Msg[:400] + "..."
			}
		}
		if len(vs) == 0 && j != n {
			vs = append(vs, world.Violation{Sig: "key-lost", Msg: fmt.Sprintf("node A received %d of %d MSET fragments", j, n)})
		}
		return vs
	}
	return sc
}

// SlowClientOverflow: a slow client has MORE than 64 KiB of replies parked (ring part full, rest in the overflow list);
// a writable event drains part of it; then FURTHER replies for that client are produced (forwarded and local ones) while
// list content is still waiting. Byte-exact stream at the end.
func SlowClientOverflow(name string, size, bound int) *world.Scenario {
	sc := &world.Scenario{Nodes: T3m(), Bound: bound, Family: "slow-client-overflow", Horizon: 3000, WriteOracle: true,
		ReadCap: 65536, WriteCap: 65536, MaxLen: 8 << 20, NoVariant: true}
	replyOf := map[string][]byte{}
	reqs := []Req{PingReq()}
	var first []byte
	for j := 0; j < 3; j++ {
		k := keysA[j]
		r := GetReq(k)
		r.Expect = world.Bulk(patterned("A"+k, size+j))
		replyOf[k] = r.Expect
		reqs = append(reqs, r)
		first = append(first, r.Bytes...)
	}
	later := []Req{GetReq(keysB[0]), PingReq(), GetReq(keysA[5])}
	later[0].Expect = world.Bulk(patterned("late", 700))
	replyOf[keysB[0]] = later[0].Expect
	reqs = append(reqs, later...)
	cs := ClientOf(reqs, false)
	need := size + size/2
	drained := func(w *world.World) bool { return w.Clients[0].Sock != nil && w.Clients[0].Sock.TxTotal >= need }
	cs.Chunks = []world.Chunk{{Data: reqs[0].Bytes}, {Data: first, WaitReplies: 1}}
	for _, r := range later {
		cs.Chunks = append(cs.Chunks, world.Chunk{Data: r.Bytes, Gate: drained})
	}
	cs.Slow = true
	sc.Clients = []world.ClientSpec{cs}
	sc.Reply = func(w *world.World, bc *world.BConn, args [][]byte) ([]byte, int) {
		if len(args) > 1 {
			if r, ok := replyOf[string(args[1])]; ok {
				return r, 0
			}
		}
		return nil, 0
	}
	sc.Name = fmt.Sprintf("%s/slow-client-overflow/3x%dB-then-more/d%d", name, size, bound)
	sc.Check = func(w *world.World) []world.Violation {
		vs := CheckStreams(w, StreamOpts{})
		for i := range vs {
			if len(vs[i].Msg) > 500 {
				vs[i].Msg = vs[i].Msg[:500] + "..."
			}
		}
		return vs
	}
	return sc
}

// SlowBackendBatch: several fragments for one node are queued by ONE loop round (one chunk with n split MSETs) and leave
// in one vectored write to a node that reads slowly: the write is accepted in part (cut in any fragment), the rest is
// parked and drained by writable events. The node must receive exactly the fragments, in order.
func SlowBackendBatch(name string, n, size, bound int) *world.Scenario {
	sc := SlowBackendOverflow(name, n, size, bound)
	cs := sc.Clients[0]
	var all []byte
	for _, c := range cs.Chunks {
		all = append(all, c.Data...)
	}
	cs.Chunks = []world.Chunk{{Data: all}}
	sc.Clients = []world.ClientSpec{cs}
	sc.WriteCap, sc.ReadCap = 256, 65536
	sc.Family = "slow-backend-batch"
	sc.Name = fmt.Sprintf("%s/slow-backend-batch/%dx%dB-in-one-write/d%d", name, n, size, bound)
	return sc
}
