// Verification stub for rcproxy/core/pkg/logging/logger.go: same API, captures
// Info/Warn/Error lines only when Capture is on (replays), never evaluates Debug closures
// (like a production INFO level).
package logging

import "fmt"

var logObj *logger = nil

var (
	Capture bool
	Lines   []string
	// Counters by level, always maintained (cheap): lets oracles see "an error was logged".
	NWarn, NError int
)

func VerifResetLog() { Lines = Lines[:0]; NWarn, NError = 0, 0 }

func add(l, f string, v ...interface{}) {
	if Capture {
		Lines = append(Lines, l+" "+fmt.Sprintf(f, v...))
	}
}
func Debug(v ...interface{})                 {}
func Debugf(format string, v ...interface{}) {}
func Debugfunc(f func() string)              {}
func Info(v ...interface{}) {
	if Capture {
		add("I", "%s", fmt.Sprint(v...))
	}
}
func Infof(format string, v ...interface{}) { add("I", format, v...) }
func Warn(v ...interface{}) {
	NWarn++
	if Capture {
		add("W", "%s", fmt.Sprint(v...))
	}
}
func Warnf(format string, v ...interface{}) { NWarn++; add("W", format, v...) }
func Error(v ...interface{}) {
	NError++
	if Capture {
		add("E", "%s", fmt.Sprint(v...))
	}
}
func Errorf(format string, v ...interface{}) { NError++; add("E", format, v...) }
