#!/usr/bin/env python3
# Assembles DESIGN.md from its parts: head (sections 1-2), body (3-7), section 8 generated from seeded/*/meta.json, appendices.
import json,glob,os,sys
root='/verif'
parts=root+'/tools/design_parts'
head=open(parts+'/head.md').read()
body=open(parts+'/body.md').read()
# section 4.1: the further families per property, taken from the checks' own rule texts (engine/zz/checks/common.go ruleExtra)
import re
src=open(root+'/engine/zz/checks/common.go').read()
m=re.search(r'var ruleExtra = map\[string\]string\{(.*?)\n\}', src, re.S)
extra=[]
if m:
    for mm in re.finditer(r'"(C\d\d)":\s*"((?:[^"\\]|\\.)*)",', m.group(1)):
        extra.append("| %s | %s |" % (mm.group(1), mm.group(2).replace('|','/')))
sec41 = "### 4.1 Families added in session 4 (rounds 5-7 of §8), per property\n\nThese are appended to the `Rule` text of each evidence file (`FURTHER FAMILIES`).\n\n| id | further families |\n|---|---|\n" + "\n".join(extra) + "\n\n"
marker = "---------------------------------------------------------------------------------------------------\n\n## 5. What the checks found"
if marker in body:
    body = body.replace(marker, sec41 + marker, 1)
else:
    body = body.replace("## 5. What the checks found", sec41 + "## 5. What the checks found", 1)
appA=open(parts+'/appA.md').read()
app=open(parts+'/app.md').read()
rows=[]
for d in sorted(glob.glob(root+'/seeded/*/meta.json')):
    m=json.load(open(d))
    rows.append("| %s | %s | %s | %s | %s |" % (m['id'], m['breaks_property'], ", ".join(f.strip().replace('core/','') for f in m['files_changed']), m['needs_to_manifest'].replace('|','/'), ", ".join(m.get('detected_by',[])) or "—"))
own=open(parts+'/own_mutants.md').read() if os.path.exists(parts+'/own_mutants.md') else ''
e3=''
if os.path.exists(root+'/conformance/e3_report.json'):
    r=json.load(open(root+'/conformance/e3_report.json'))
    e3="Last E3 run (`conformance/e3_report.json`): %d scenarios replayed on the unmodified binary over real sockets: %d agree, %d mismatch, %d not confirmed.\n" % (r['scenarios'],r['agree'],r['mismatch'],r['not_confirmed'])
sec8 = """
---------------------------------------------------------------------------------------------------

## 8. Detection demonstrations

### 8.1 Seeded changes written by independent sub-agents

Each change was written by a fresh sub-agent that was given only the text of one property and its own
scratch worktree of the repaired tree — nothing from `/verif`. Each compiles, keeps the 35 baseline
tests passing, and comes with its own demonstration (a `go test` file driving the real code) that
fails with the change and passes without it; all of that was re-confirmed in a fresh worktree before
the change was kept (`seeded/<id>/meta.json`). The last column lists every check (quick tier) that
reports a VIOLATION with the change applied (`bin/seedrun <id> C01 … C20`, i.e. all twenty checks
against a scratch worktree with the patch; spot-confirmed with `git -C /repo apply` / `checkout`).
Checks that missed a change at first were strengthened (noted below the table); no check was loosened.

| seed | breaks | files | needs, in order to manifest | caught by (quick tier) |
|---|---|---|---|---|
""" + "\n".join(rows) + """

Eleven rounds were run (20 + 20 + 16 + 20 + 20 + 20 + 20 + 20 + 20 + 9 + 10 = 195 changes; seeds `Cxx`, `R2-Cxx` ... `R11-Cxx`; rounds
10 and 11 asked for ten properties each (together all twenty), and one delivery of round 10 (C03) was dropped because it made
a pinned test panic; from the
second round on the sub-agent was told, in one line each, the earlier ideas for the same property and asked for a different
code site and mechanism; round 3 has 16 seeds because four sub-agents did not deliver a change that could be confirmed). The
last column is the outcome of the matrix runs (`bin/seedmatrix`: checks against a scratch worktree with the patch, quick
tier, after all strengthening; `seeded/matrix.json`). **Every one of the 195 changes is reported by the check of the
property it breaks**; most are also reported by neighbouring checks. First-time results, before strengthening (own check /
any check): round 1 — 14 / 20 of 20; round 2 — 8 of 20; round 3 — 4 of 16 (3 by no check, one made the harness itself
fail); round 4 — 9 of 20 (5 by no check); round 5 — 7 / 14 of 20; round 6 — 9 / 16 of 20 (four of the nine own-check hits
were families written *before* the round as a guess at what would come); round 7 — 7 / 14 of 20 (none: R7-C09, R7-C13,
R7-C14, R7-C15, R7-C16, R7-C18 — each needed a capability the world did not have: time passing under load, several
connections per node, a close with a backlog, traffic during the topology probe, connections between whitelist reloads);
round 8 — measured only in part, a harness rebuild disturbed the first matrix run (R8-C14 and R8-C04 pointed at two BLIND
SPOTS of the harness — the stubbed redis client and the mirrored boot path, §3.1 — and R8-C18 at a third: a fresh watcher
object per reload); round 9 — see `seeded/matrix.json`; round 10 — 2 of 9 by their own check (R10-C05, R10-C10), the other seven needed
the families listed below; round 11 — 5 of 10 (R11-C06, C08, C11, C14, C15). Several seeds repeat an earlier idea under another property
(R6-C03 / R6-C15 / R6-C19, R7-C20 = R5-C14, R7-C04 = C05, R9-C01 = R8-C02, R9-C04 = R3-C20): they are kept because each is
judged by a different check. Two sub-agents (rounds 5 and 9) reported, as a side remark, defects of the unchanged tree that
the checks had not been asked about: the late redirect of a finished fragment (found independently while writing the C16
family, fix 8c1e8ec) and the `nofailover` flag (fix d4e84db, §5.1).

Strengthening triggered by first-time misses (no check was loosened, none of these families fires on the
unchanged tree):

* round 1 — C01 partial-routing family (Tgap); C03 "partially routable request *behind a pending one*"; C02
  slow-reader *pipeline* (several replies crossing the ring/list boundary of the outbound buffer); C10 slow-backend
  family; C04 role-flip family (master with open connections demoted); C12 lengths that wrap 2^64 to the genuine
  value.
* round 2 — a modelling gap: the world never put two complete replies into one read; `CoalesceAll` /
  `CoalesceChoice` now do (C02, C04 handshake + first reply in one segment, C07); `SlowMultiFlush` (three replies
  released by one vectored write to a slow reader: C01, C02, C19 — C19 gained an E1 family); C05 E1 family (slot
  the running proxy *assigns* inside multi-key requests); C06 pool key with an empty `{}` tag; C07 fragment
  redirected first; C09 open-loop client that also reads slowly (EAGAIN with an empty backlog); C10 a client closed
  for invalid input in the batch in which its valid request was routed; C11 more error texts (`-ERR invalid …`,
  `-NOSCRIPT`, `-NOPERM`, `-MISCONF`, minimal `-ERR` / `-E`); C13 ASK cycles; C17 oversize requests of every
  command family (split commands, scripts); C18 admission under interleavings (request already in the socket at
  accept time); C20 replica re-parented by a topology update; memory faults inside proxy code (a write into
  read-only memory) are turned into recoverable panics so that they are reported as `crash`, not as a dead worker.
* round 3 — C01 one locally answered request per rejection path of every decoding branch; C03 handshake segmentations;
  C04 slots dropped / moved by a topology update; C02 + C08 state left behind by a connection that died inside a message
  (aborted neighbour, backend loss mid-reply) and `sync.Pool` made a deterministic LIFO list in *every* rewritten file
  (the ring-buffer pool is what carried the stale bytes); C07 neighbour left with a split request unanswered; **C09 flood**
  (a never-pausing sender: `ClientSpec.Flood`, bounded intake per loop round — the earlier C09 families could not
  express starvation because in a finite closed world every execution of the starving loop is also an execution of the
  fair one); C10 cold connections with a handshake; C11 + C01 replies of two clients in one backend read while one of them
  leaves; C13 slot-number edge cases; **C14 dead-node** scenario with a cross-execution oracle over the probe-target
  choices (`Fault.AfterTicks`, `IntnGate`); C16 recycled-after-timeout; C17 rejected-behind-pending; C20 cluster-like
  nodes (READONLY required, "served" = answered with data) with password; package-level variables reset per execution.
* round 4 — C04 keys with a stray `}` before the tag; C06 keys / values ending in CR / LF; **C08 long stream** (the
  1 KiB inbound ring only wraps when the leftover never drains: 70 requests, no read on a request boundary); C09 complete
  reply + partial successor in one backend read; C10 node connection lost before the queued requests are written (and the
  peer-address fidelity fix, §5.2); C11 single-fragment multi-key commands; C12 offender with requests in flight; C13
  redirect line not first in its read; C14 history-dependent INFO answers; C16 connection lost after the timeout
  (`Fault.Gate`); C17 near-miss names; **C20 ban-recovery with the real health monitor as a cooperative thread** (§3.1a) —
  before, `go p.monitor()` was simply dropped and no change to the monitor could be seen.
* round 5 — a genuine defect found while writing the C16 late-redirect family (§5.1, fix 8c1e8ec); C02 pipelined batches;
  `BigSlowRecycle` (64 KiB+ replies parked for a slow reader while request objects are recycled: C02, C03, C19); C05 slot
  assigned to single-key requests and scripts; C07 pipelined pairs; C08 large requests around the ring's growth points; C09
  flood + slow reader (writable readiness must be used); C10 production-size slow backend; C11 error first on a
  handshaking connection; C12 odd well-formed requests; C13 local reply / QUIT behind a redirect, C01 redirect kinds in the
  pipeline alphabet; C14 all 720 line orders; C17 argument counts around narrow-counter wrap points; C20 traffic mixes.
* round 6 — number sweeps (C06, C07); C11 long error lines; C13 concurrent redirects; C14 small clusters; C09 oversize
  merged MGET followed by local requests; C08 streams of empty arguments; C04 replica re-parented / C20 role swap;
  connection-died-mid-message families for C03, C15, C19; `BigBatch` tail requests (what a big flush leaves behind).
* round 7 — `BusyTicks` (C16 under load); several connections per node (C13, C15, C16); close-with-backlog + the per-round
  syscall spin guard (C09, C15); C18 connections before and after the last change; C14 end-to-end under load; C10 writes
  with replicas (node model redirects writes at replicas); C11 error-then-sibling-deadline; C08 request larger than the read
  buffer with tail arguments; C06 / C19 slow-backend-overflow and many-medium-replies; C04 high-byte key for every slot; C03
  closed-with-unwritten-fragment; C01 handshake in pieces; C17 every reply shape at the limit; C20 replicas listed first.
* round 8 — the proxy's own redis client runs for real (INFO in pieces); the REAL `serve()` / `engine.start()` boot (C04, C14
  real-boot families); one watcher object across reloads + file contents with absent keys (C18); exact multiples of 1024
  (C01, C06, C10); all fragments redirected (C13, C07); shared-slot open loop (C09); long invalid inputs (C12); slow client
  overflow then more replies (C01, C19); client gone then backend lost (C15); oversize merge (C03); deep pipelines (C08);
  write-then-set on MOVED-answering nodes (C10); redirect and error in one read (C11); replica left and returned (C20).
* round 9 — a second genuine defect (the `nofailover` flag, §5.1); the blocking-send guard + nobody takes the probe replies
  (C09); empty replies and local replies to a slow reader (C01, C19); MSET lists in C05; three-segment messages at
  production buffers (C02); QUIT behind a request with coalesced replies (C03); several fragments in one write to a slow
  node (C06); many-key streams (C08); ask-migrating (C10); error with slow-log (C11); AUTH lengths with a password (C12);
  slot-less importing master (C13, C14); small size limit end-to-end (C14).
* round 10 — a whole write batch to a silent node times out (C01, C16: one deadline per request, not per batch); a client
  gone before the deadline with another client's request behind it (C16; the seeded loop logs on every turn, so the
  logging stub now bounds what a replay captures and a log line counts towards the livelock guard — before that the
  replay of the livelock grew to 25 GB); redirect hops that are each inside the request timeout while their sum is not
  (C13, C16); a split request as the FIRST request on connections that start with AUTH / READONLY, all replies in one
  read (C07); a fragment answered with an error, judged by C07 as well as C11; a fragment's reply followed by further
  replies in the same backend read with nothing else making that connection readable again (C09); a request cut inside
  its array-header / first bulk-header line (C19); an incomplete request of more than 32 MiB whose client hangs up —
  buffers of the top size class of the pools (C12, C19); a node lost for good — connection gone and every new dial
  refused — with later requests routed to it (C15).
* round 11 — a third harness blind spot closed: `core.Run` itself (option defaulting: size limit, connections per node,
  connect timeout) was never executed, `Scenario.RealRun` now starts the proxy through the real `Run()` with the values as
  configured (rewriter: `initListener` -> the simulated listener, deferred listener close skipped) and C17 judges the
  CONFIGURED limit (40 ... 5000 bytes, not configured) with one request of exactly the limit and one a byte above it;
  replies of minimal size — a status / error line with empty text, alone and nested (C02); passwords made of bytes that
  mean something to a formatter or the protocol (`%`, CR LF, braces, backslash) (C04); the real fsnotify watcher also
  sees reloads that FAIL between two edits (text that is not YAML, the file moved away and back) and must still follow
  the next edit (C18); the scripted nodes describe themselves as Redis 7 (`async_loading:0` after `loading:0` in INFO)
  in every second C20 scenario.
""" + own + "\n" + e3
open(root+'/DESIGN.md','w').write(head+body+sec8+appA+app)
print("DESIGN.md written,", len(open(root+'/DESIGN.md').read().splitlines()), "lines")
