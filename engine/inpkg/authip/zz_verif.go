// Verification harness file overlaid into package authip.
package authip

import "github.com/cornelk/hashmap"

// the watcher object of the running process: LoopIPWhiteList creates ONE AuthIp and calls parseAuthIp on it for the initial
// load and for every change event, so whatever that object remembers between loads is part of the behaviour
var verifWatcher *AuthIp

// VerifReset empties the live whitelist and forgets the watcher object (a fresh process).
func VerifReset() {
	IpMap.enable = false
	IpMap.HashMap = hashmap.HashMap{}
	verifWatcher = nil
}

// VerifReload runs the real parseAuthIp exactly as the watcher does on a change event (same long-lived object).
func VerifReload(dir, file string) error {
	if verifWatcher == nil || verifWatcher.path != dir || verifWatcher.name != dir+"/"+file {
		verifWatcher = &AuthIp{path: dir, name: dir + "/" + file}
	}
	return verifWatcher.parseAuthIp()
}

// VerifSet sets the live whitelist directly (E1 scenarios that are not about reload).
func VerifSet(enable bool, ips ...string) {
	VerifReset()
	IpMap.enable = enable
	for _, ip := range ips {
		IpMap.Insert(ip, struct{}{})
	}
}
