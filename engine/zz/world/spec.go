package world

import (
	"bytes"
	"strings"
)

// Hand-written specification data. Written from docs/command.md (the "Yes" rows), the property
// statements and the Redis command reference -- NOT generated from the code tables.

type Arity int

const (
	ArZ    Arity = iota // no argument
	Ar1                 // exactly 1 (the key)
	Ar2                 // exactly 2
	Ar3                 // exactly 3
	Ar4                 // exactly 4
	ArInf               // 1 or more
	ArEven              // 2 or more, even
	ArMin3              // 3 or more (script, numkeys, first key)
)

type CmdSpec struct {
	Name  string
	Arity Arity
	Write bool // must be served by the master (Redis write flag, cursor scans, scripts)
	Local bool // answered by the proxy itself
	Split bool // fragmented per slot
	Eval  bool // key is the third argument
}

// SpecTable: the documented supported set (103 "Yes" rows of docs/command.md) plus AUTH, which
// the C17 statement names as locally served.
var SpecTable = map[string]CmdSpec{}

func add(ar Arity, write bool, names ...string) {
	for _, n := range names {
		SpecTable[n] = CmdSpec{Name: n, Arity: ar, Write: write}
	}
}

func init() {
	// reads
	add(Ar1, false, "exists", "ttl", "pttl", "type", "dump", "get", "strlen", "hgetall", "hkeys", "hlen", "hvals",
		"llen", "scard", "smembers", "zcard", "pfcount")
	add(Ar2, false, "getbit", "hexists", "hget", "lindex", "sismember", "zrank", "zrevrank", "zscore")
	add(Ar3, false, "getrange", "lrange", "zcount", "zlexcount")
	add(ArInf, false, "bitcount", "mget", "hmget", "srandmember", "sdiff", "sinter", "zrange", "zrangebylex",
		"zrangebyscore", "zrevrange", "zrevrangebyscore", "sunion")
	// cursor scans: master
	add(ArInf, true, "hscan", "sscan", "zscan")
	// writes
	add(Ar1, true, "persist", "decr", "incr", "lpop", "rpop", "spop")
	add(Ar2, true, "expire", "expireat", "pexpire", "pexpireat", "append", "decrby", "getset", "incrby", "incrbyfloat",
		"setnx", "lpushx", "rpushx", "rpoplpush")
	add(Ar3, true, "psetex", "restore", "setbit", "setex", "setrange", "hincrby", "hincrbyfloat", "hset", "hsetnx",
		"lrem", "lset", "ltrim", "smove", "zincrby", "zremrangebyrank", "zremrangebylex", "zremrangebyscore")
	add(Ar4, true, "linsert")
	add(ArInf, true, "del", "sort", "set", "hdel", "hmset", "lpush", "rpush", "pfadd", "pfmerge", "sadd", "sdiffstore",
		"sinterstore", "srem", "sunionstore", "zadd", "zinterstore", "zrem", "zunionstore")
	add(ArMin3, true, "eval", "evalsha")
	add(ArEven, true, "mset")
	// local
	add(ArZ, false, "ping", "quit")
	add(Ar1, false, "auth")
	for _, n := range []string{"ping", "quit", "auth"} {
		s := SpecTable[n]
		s.Local = true
		SpecTable[n] = s
	}
	for _, n := range []string{"mget", "del", "mset"} {
		s := SpecTable[n]
		s.Split = true
		SpecTable[n] = s
	}
	for _, n := range []string{"eval", "evalsha"} {
		s := SpecTable[n]
		s.Eval = true
		SpecTable[n] = s
	}
}

// PFCOUNT and SUNION are reads in Redis; the proxy may serve them anywhere in the owning replica set.
// (The proxy happens to send them to the master, which the property allows.)

func ArityOK(a Arity, n int) bool {
	switch a {
	case ArZ:
		return n == 0
	case Ar1:
		return n == 1
	case Ar2:
		return n == 2
	case Ar3:
		return n == 3
	case Ar4:
		return n == 4
	case ArInf:
		return n >= 1
	case ArEven:
		return n >= 2 && n%2 == 0
	case ArMin3:
		return n >= 3
	}
	return false
}

// ---------------------------------------------------------------------------------------------
// reference key slot: bitwise CRC16/XMODEM over the Redis Cluster hash-tag rule

func crc16(b []byte) uint16 {
	var crc uint16
	for _, c := range b {
		crc ^= uint16(c) << 8
		for i := 0; i < 8; i++ {
			if crc&0x8000 != 0 {
				crc = crc<<1 ^ 0x1021
			} else {
				crc <<= 1
			}
		}
	}
	return crc
}

// SpecSlot is the Redis Cluster specification's key slot.
func SpecSlot(key []byte) int {
	s := bytes.IndexByte(key, '{')
	if s >= 0 {
		e := bytes.IndexByte(key[s+1:], '}')
		if e > 0 { // non-empty tag
			return int(crc16(key[s+1:s+1+e]) % 16384)
		}
	}
	return int(crc16(key) % 16384)
}

// ---------------------------------------------------------------------------------------------
// proxy-generated replies

const (
	ROK             = "+OK\r\n"
	RPong           = "+PONG\r\n"
	RErrUnknownCmd  = "-ERR unknown command\r\n"
	RErrArgs        = "-ERR wrong number of arguments\r\n"
	RErrReqLarge    = "-ERR req msg length too large\r\n"
	RErrRspLarge    = "-ERR rsp msg length too large\r\n"
	RErrTimeout     = "-ERR proxy request timeout\r\n"
	RErrUnknownSlot = "-ERR unknown slot\r\n"
	RErrAuthNoPw    = "-ERR Client sent AUTH, but no password is set\r\n"
	RErrAuthBad     = "-ERR invalid password\r\n"
)

func Lower(b []byte) string { return strings.ToLower(string(b)) }
