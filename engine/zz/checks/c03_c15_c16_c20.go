package checks

import (
	"bytes"
	"fmt"
	"rcproxy/core/pkg/redis"
	"sort"
	"strings"
	"time"

	"rcproxy/core"
	"rcproxy/core/zz_verif/world"
)

var proxyErrors = []string{
	"-ERR unknown error\r\n", "-ERR addr not found\r\n", "-ERR unknown command\r\n", "-ERR unknown slot\r\n",
	"-ERR unknown proxy pool\r\n", "-ERR unknown proxy pool conn\r\n", "-ERR unknown mget error\r\n",
	"-ERR req msg length too large\r\n", "-ERR rsp msg length too large\r\n", "-ERR wrong number of arguments\r\n",
	"-ERR proxy request timeout\r\n",
}

func isProxyError(r []byte) bool {
	if !world.IsError(r) {
		return false
	}
	// any error line the proxy generates itself; errors never embed a request token
	return bytes.HasPrefix(r, []byte("-ERR "))
}

// ---------------------------------------------------------------------------------------------
// C03: a client never receives a reply produced for a different request (safety only).

func c03Check(faultKind string) func(w *world.World) []world.Violation {
	return func(w *world.World) []world.Violation {
		var vs []world.Violation
		for ci, c := range w.Clients {
			rs, _, malformed := world.SplitReplies(c.Received)
			if malformed {
				vs = append(vs, world.Violation{Sig: "corrupt", Msg: fmt.Sprintf("client %d stream does not parse: %q", ci, c.Received)})
				continue
			}
			for j, r := range rs {
				if j >= len(c.Spec.Expect) {
					vs = append(vs, world.Violation{Sig: "stale-fragment-reply:" + faultKind, Msg: fmt.Sprintf("client %d received an extra reply %q after its %d requests (received %q)", ci, r, len(c.Spec.Expect), c.Received)})
					break
				}
				if bytes.Equal(r, c.Spec.Expect[j]) || isProxyError(r) {
					continue
				}
				if alt, ok := c.Spec.ExpectAlt[j]; ok && bytes.Equal(alt, r) {
					continue
				}
				vs = append(vs, world.Violation{Sig: "stale-fragment-reply:" + faultKind, Msg: fmt.Sprintf("client %d request %d (%q) was answered with %q, which is neither its own reply %q nor a proxy error", ci, j, reqAt(c, j), r, c.Spec.Expect[j])})
				break
			}
		}
		return vs
	}
}

// orphanRedirect: node A answers the request for key with a redirect to B (the reply of a fragment whose request has
// been answered already must be discarded whatever it is, a redirect included)
func orphanRedirect(kind, key string) world.ReplyFn {
	return func(w *world.World, bc *world.BConn, args [][]byte) ([]byte, int) {
		if bc.Addr == AddrA && hasKey(args, key) {
			if kind == "moved" {
				return []byte(fmt.Sprintf("-MOVED %d %s\r\n", world.SpecSlot([]byte(key)), AddrB)), 0
			}
			return []byte(fmt.Sprintf("-ASK %d %s\r\n", world.SpecSlot([]byte(key)), AddrB)), 0
		}
		return nil, 0
	}
}

func c03Scenarios(tier string) []*world.Scenario {
	var out []*world.Scenario
	b := 3
	if tier == "thorough" {
		b = 5
	}
	order := []string{"core/server/server_c.go:OnCReact:Body"}
	mk := func(name, fk string, sc *world.Scenario) {
		sc.Name = fmt.Sprintf("C03/%s/d%d", name, sc.Bound)
		sc.Family = fk
		sc.Check = c03Check(fk)
		sc.ReuseFds = true
		if sc.Horizon == 0 {
			sc.Horizon = 300
		}
		out = append(out, sc)
	}
	gap := keysGap[0]
	// (a) a multi-key request with one key in an unowned range, followed by further requests
	for _, kind := range []string{"mget", "del", "mset"} {
		var r Req
		switch kind {
		case "mget":
			r = MGetReq(keysA[0], gap)
		case "del":
			r = DelReq(keysA[0], gap)
		case "mset":
			r = MSetReq(keysA[0], "v", gap, "w")
		}
		r.Expect = []byte(world.RErrUnknownSlot)
		for _, split := range []bool{true, false} {
			cs := ClientOf([]Req{r, GetReq(keysB[1]), GetReq(keysA[2])}, split)
			mk(fmt.Sprintf("partial-unowned/%s/one=%v", kind, split), "partial-routing-unowned",
				&world.Scenario{Nodes: Tgap(), Bound: b, OrderSites: order, Clients: []world.ClientSpec{cs}})
			for _, rd := range []string{"moved", "ask"} {
				// the orphan fragment is answered with a redirect
				mk(fmt.Sprintf("partial-unowned/%s/one=%v/orphan-%s", kind, split, rd), "partial-routing-unowned",
					&world.Scenario{Nodes: Tgap(), Bound: b, OrderSites: order, Clients: []world.ClientSpec{cs}, Reply: orphanRedirect(rd, keysA[0])})
			}
		}
		// two clients: the victim's request reuses the recycled request object
		cs0 := ClientOf([]Req{r}, true)
		cs1 := ClientOf([]Req{GetReq(keysB[1]), GetReq(keysB[2])}, false)
		mk(fmt.Sprintf("partial-unowned-2clients/%s", kind), "partial-routing-unowned",
			&world.Scenario{Nodes: Tgap(), Bound: b, OrderSites: order, Clients: []world.ClientSpec{cs0, cs1}})
	}
	// (a') the partially routable request sits BEHIND a request that is still pending, so its local reply is queued;
	// both are flushed and recycled before the backend answers the orphan fragment
	for _, kind := range []string{"mget", "del"} {
		var r Req
		if kind == "mget" {
			r = MGetReq(keysA[0], gap)
		} else {
			r = DelReq(keysA[0], gap)
		}
		r.Expect = []byte(world.RErrUnknownSlot)
		for _, split := range []bool{true, false} {
			cs := ClientOf([]Req{GetReq(keysB[4]), r, GetReq(keysB[1]), GetReq(keysC[2])}, split)
			mk(fmt.Sprintf("partial-unowned-behind-pending/%s/one=%v", kind, split), "partial-routing-unowned",
				&world.Scenario{Nodes: Tgap(), Bound: b, OrderSites: order, Clients: []world.ClientSpec{cs}})
			for _, rd := range []string{"moved", "ask"} {
				mk(fmt.Sprintf("partial-unowned-behind-pending/%s/one=%v/orphan-%s", kind, split, rd), "partial-routing-unowned",
					&world.Scenario{Nodes: Tgap(), Bound: b, OrderSites: order, Clients: []world.ClientSpec{cs}, Reply: orphanRedirect(rd, keysA[0])})
			}
			cs0 := ClientOf([]Req{GetReq(keysB[4]), r}, split)
			cs1 := ClientOf([]Req{GetReq(keysB[1]), GetReq(keysC[2])}, false)
			mk(fmt.Sprintf("partial-unowned-behind-pending-2clients/%s/one=%v", kind, split), "partial-routing-unowned",
				&world.Scenario{Nodes: Tgap(), Bound: b, OrderSites: order, Clients: []world.ClientSpec{cs0, cs1}})
		}
	}
	// (b) a multi-key request with one key on a node whose dial is refused
	{
		r := MGetReq(keysA[0], keysB[0])
		r.Expect = []byte("-ERR unknown proxy pool conn\r\n")
		cs := ClientOf([]Req{r, GetReq(keysC[1]), GetReq(keysA[2])}, false)
		mk("partial-dial-refused/mget", "partial-routing-dial",
			&world.Scenario{Nodes: T3m(), Bound: b, OrderSites: order, Clients: []world.ClientSpec{cs}, RefuseDial: map[string]int{AddrB: -1}})
	}
	// (c) a client disconnects with requests in flight while another connects (descriptor reuse)
	for _, rst := range []bool{false, true} {
		cs0 := ClientOf([]Req{GetReq(keysA[0]), MGetReq(keysA[1], keysB[1])}, true)
		cs0.CloseAfter, cs0.CloseRST = 1, rst
		cs1 := ClientOf([]Req{GetReq(keysA[3]), GetReq(keysB[3])}, false)
		mk(fmt.Sprintf("client-close/rst=%v", rst), "client-close",
			&world.Scenario{Nodes: T3m(), Bound: b, Clients: []world.ClientSpec{cs0, cs1}})
	}
	// (d) timeouts: a stalled request times out, its late reply arrives while later requests are queued
	{
		stalled := keysA[0]
		cs := ClientOf([]Req{GetReq(stalled), GetReq(keysB[1])}, true)
		cs.Chunks = append(cs.Chunks, world.Chunk{Data: GetReq(keysA[2]).Bytes, WaitTicks: 1})
		cs.Reqs = append(cs.Reqs, GetReq(keysA[2]).Bytes)
		cs.Expect = append(cs.Expect, GetReq(keysA[2]).Expect)
		cs.Expect[0] = []byte(world.RErrTimeout)
		// the deadline is only examined after an event: a reply that arrives before the proxy has examined it may still be used
		cs.ExpectAlt = map[int][]byte{0: world.ValueOf([]byte(stalled))}
		sc := &world.Scenario{Nodes: T3m(), Bound: b, Clients: []world.ClientSpec{cs}, TimeoutMs: 100, Ticks: []time.Duration{150 * time.Millisecond}}
		sc.TickGate = func(w *world.World) bool { return len(w.DataCmds("")) >= 2 }
		sc.Reply = func(w *world.World, bc *world.BConn, args [][]byte) ([]byte, int) {
			if hasKey(args, stalled) {
				return world.ValueOf([]byte(stalled)), 1 // delivered only after the tick
			}
			return nil, 0
		}
		mk("timeout-late-reply", "timeout", sc)
		for _, rd := range []string{"moved", "ask"} {
			cs2 := cs
			cs2.ExpectAlt = map[int][]byte{0: world.ValueOf([]byte(stalled))} // redirect followed in time: B's reply
			sc2 := &world.Scenario{Nodes: T3m(), Bound: b, Clients: []world.ClientSpec{cs2}, TimeoutMs: 100, Ticks: []time.Duration{150 * time.Millisecond}}
			sc2.TickGate = sc.TickGate
			inner := orphanRedirect(rd, stalled)
			sc2.Reply = func(w *world.World, bc *world.BConn, args [][]byte) ([]byte, int) {
				if r, _ := inner(w, bc, args); r != nil {
					return r, 1
				}
				return nil, 0
			}
			mk("timeout-late-reply/late-"+rd, "timeout", sc2)
		}
	}
	// (e) backend connection lost and re-established with requests in flight
	{
		cs := ClientOf([]Req{GetReq(keysA[0]), GetReq(keysA[1])}, true)
		cs.Chunks = append(cs.Chunks, world.Chunk{Data: GetReq(keysA[2]).Bytes, WaitTicks: 1})
		cs.Reqs = append(cs.Reqs, GetReq(keysA[2]).Bytes)
		cs.Expect = append(cs.Expect, GetReq(keysA[2]).Expect)
		cs1 := ClientOf([]Req{GetReq(keysA[4])}, true)
		sc := &world.Scenario{Nodes: T3m(), Bound: b, Clients: []world.ClientSpec{cs, cs1}, Ticks: []time.Duration{150 * time.Millisecond},
			Faults: []world.Fault{{Kind: "backend-close", Addr: AddrA, AfterW: 1}}}
		mk("backend-reconnect", "reconnect", sc)
	}
	// (g) production-size buffers: replies of 64 KiB and more parked for a slow reader while the request objects that
	// carried them are recycled and reused by ANOTHER client before the backlog drains
	for _, sz := range [][]int{{100, 70000, 70000}, {70000, 66000, 100}} {
		sc := BigSlowRecycle("C03", sz, 60000, 2)
		inner := sc.Check
		sc.Check = func(w *world.World) []world.Violation {
			vs := inner(w)
			for i := range vs {
				vs[i].Sig = "stale-fragment-reply:recycled-while-parked"
			}
			return vs
		}
		sc.Family = "recycled-while-parked"
		sc.ReuseFds = true
		out = append(out, sc)
	}
	// (h) a connection dies inside a message (node killed mid-reply / client gone mid-request): whatever it leaves behind
	// in pooled buffers must not surface in the next connection's stream (the following reply / request arrives cut)
	for _, kind := range []string{"backend-close", "backend-rst"} {
		for _, cut := range []int{1, 3, 7} {
			sc := BackendLossMidReply(kind, cut, 2)
			sc.Name = fmt.Sprintf("C03/backend-loss-mid-reply/%s/cut%d/d2", kind, cut)
			sc.Family = "connection-died-mid-message"
			sc.Check = c03Check("reconnect")
			out = append(out, sc)
		}
	}
	{
		ab := world.Cmd("set", keysA[0], strings.Repeat("A", 34))
		victim := []Req{GetReq(keysB[2]), SetReq(keysC[2], "hello")}
		for _, plen := range []int{9, len(ab) - 1} {
			for _, rst := range []bool{false, true} {
				for _, cut := range []int{4, 13, 30} {
					sc := AbortedNeighbour(ab[:plen], rst, victim, []int{cut}, 32)
					sc.Name = fmt.Sprintf("C03/aborted-neighbour/prefix%d/rst=%v/cut%d", plen, rst, cut)
					sc.Family = "connection-died-mid-message"
					sc.Check = c03Check("client-close")
					out = append(out, sc)
				}
			}
		}
	}
	// (i) a client is closed by the proxy (valid request + garbage in one segment, QUIT right behind a request) while its
	// fragment is still waiting to be written to the node; other clients then use the same node connection: every one of
	// them gets its own reply
	for _, how := range []string{"garbage", "inline", "zero-count"} {
		for _, first := range []string{"get", "mget"} {
			var v Req
			if first == "get" {
				v = GetReq(keysA[0])
			} else {
				v = MGetReq(keysA[0], keysB[0])
			}
			junk := map[string]string{"garbage": "\x00\x01garbage\r\n", "inline": "PING\r\n", "zero-count": "*0\r\n"}[how]
			off := world.ClientSpec{Chunks: []world.Chunk{{Data: append(append([]byte{}, v.Bytes...), junk...)}}, Reqs: [][]byte{v.Bytes}, Expect: [][]byte{v.Expect}}
			w1 := ClientOf([]Req{GetReq(keysA[1]), GetReq(keysB[1]), GetReq(keysA[2])}, false)
			w2 := ClientOf([]Req{GetReq(keysA[3])}, true)
			sc := &world.Scenario{Nodes: T3m(), Bound: b, Clients: []world.ClientSpec{off, w1, w2}}
			mk(fmt.Sprintf("closed-with-unwritten-fragment/%s+%s", first, how), "client-close", sc)
		}
	}
	// (j) a split MGET whose merged reply exceeds the size limit (every fragment is within it) is answered with ONE error;
	// the requests behind it get their own replies
	for _, shape := range []string{"first", "middle"} {
		ka, kb := keysA[0], keysB[0]
		m := MGetReq(ka, kb)
		m.Expect = []byte(world.RErrRspLarge)
		reqs := []Req{m, GetReq(keysA[2]), GetReq(keysC[2]), GetReq(keysB[3])}
		if shape == "middle" {
			reqs = []Req{GetReq(keysC[1]), m, GetReq(keysA[2]), GetReq(keysB[3])}
		}
		for _, one := range []bool{true, false} {
			sc := &world.Scenario{Nodes: T3m(), Bound: b, MaxLen: 64, Clients: []world.ClientSpec{ClientOf(reqs, one)}}
			sc.Reply = func(w *world.World, bc *world.BConn, args [][]byte) ([]byte, int) {
				if len(args) == 2 && world.Lower(args[0]) == "mget" && (string(args[1]) == ka || string(args[1]) == kb) {
					return []byte("*1\r\n" + string(world.Bulk(strings.Repeat("L", 40)))), 0
				}
				return nil, 0
			}
			mk(fmt.Sprintf("oversize-merged-mget-%s/one=%v", shape, one), "oversize-merge", sc)
			sc.Check = func(w *world.World) []world.Violation {
				vs := CheckStreams(w, StreamOpts{})
				for i := range vs {
					vs[i].Sig = "stale-fragment-reply:oversize-merge"
				}
				return vs
			}
		}
	}
	// (k) a client that leaves by QUIT right behind its request, while the node's reply to that request arrives in the same
	// read as replies for OTHER clients of that node connection (how many replies a read carries is an enumerated choice)
	for _, first := range []string{"get", "mget"} {
		var v Req
		if first == "get" {
			v = GetReq(keysA[0])
		} else {
			v = MGetReq(keysA[0], keysB[0])
		}
		quitter := ClientOf([]Req{v, QuitReq()}, true)
		o1 := ClientOf([]Req{GetReq(keysA[1]), GetReq(keysA[2])}, true)
		o2 := ClientOf([]Req{GetReq(keysA[3])}, true)
		sc := &world.Scenario{Nodes: T3m(), Bound: b, CoalesceChoice: true, FreeKinds: []string{"coalesce"}, ReadCap: 256, WriteCap: 256,
			Clients: []world.ClientSpec{quitter, o1, o2}}
		mk("quit-behind-request-replies-coalesced/"+first, "client-close", sc)
	}
	// (f) backend connections that start with a handshake (AUTH and/or READONLY): the handshake replies under every
	// segmentation with <= 2 cuts; none of them may surface as the reply to a client's request
	for mask := 0; mask < 512; mask++ {
		if bitsSet(mask) > 2 {
			continue
		}
		for _, cfg := range []struct {
			pw  string
			rep bool
		}{{"secret", true}, {"secret", false}, {"", true}} {
			if (cfg.pw == "" || !cfg.rep) && mask >= 16 {
				continue
			}
			sc := c04HandshakeCuts(mask, cfg.pw, cfg.rep)
			sc.InputEnum = false
			sc.Bound = 1
			name := strings.TrimPrefix(sc.Name, "C04/")
			mk("handshake/"+name, "handshake", sc)
		}
	}
	return out
}

func bitsSet(m int) int {
	n := 0
	for ; m != 0; m &= m - 1 {
		n++
	}
	return n
}

// ---------------------------------------------------------------------------------------------
// C15: losing a backend never leaves a client waiting forever.

func c15Check(lostSig string) func(w *world.World) []world.Violation {
	return func(w *world.World) []world.Violation {
		var vs []world.Violation
		for ci, c := range w.Clients {
			if c.ProxyClosed || c.PeerClosed {
				continue
			}
			rs, rest, malformed := world.SplitReplies(c.Received)
			if malformed || len(rest) > 0 {
				vs = append(vs, world.Violation{Sig: "corrupt", Msg: fmt.Sprintf("client %d stream: %q", ci, c.Received)})
				continue
			}
			for j, r := range rs {
				if j < len(c.Spec.Expect) && !bytes.Equal(r, c.Spec.Expect[j]) && !world.IsError(r) {
					vs = append(vs, world.Violation{Sig: "wrong-reply-after-loss", Msg: fmt.Sprintf("client %d request %d answered %q, reference %q", ci, j, r, c.Spec.Expect[j])})
				}
			}
			if len(rs) < len(c.Spec.Expect) {
				vs = append(vs, world.Violation{Sig: lostSig, Msg: fmt.Sprintf("at the end of the execution (no event left, two further clock ticks granted) client %d is still open and has %d of %d replies; request %q is never answered", ci, len(rs), len(c.Spec.Expect), reqAt(c, len(rs)))})
			}
		}
		return vs
	}
}

func c15Scenarios(tier string) []*world.Scenario {
	var out []*world.Scenario
	b := 2
	if tier == "thorough" {
		b = 4
	}
	ticks := []time.Duration{150 * time.Millisecond, 150 * time.Millisecond}
	follow := func(cs *world.ClientSpec, key string) {
		r := GetReq(key)
		cs.Chunks = append(cs.Chunks, world.Chunk{Data: r.Bytes, WaitTicks: 2})
		cs.Reqs = append(cs.Reqs, r.Bytes)
		cs.Expect = append(cs.Expect, r.Expect)
	}
	add := func(name, fam, sig string, sc *world.Scenario) {
		sc.Name = fmt.Sprintf("C15/%s/d%d", name, sc.Bound)
		sc.Family = fam
		sc.Check = c15Check(sig)
		if sc.Horizon == 0 {
			sc.Horizon = 300
		}
		sc.Ticks = ticks
		out = append(out, sc)
	}
	pipes := map[string][]Req{
		"get":         {GetReq(keysA[0])},
		"get-get":     {GetReq(keysA[0]), GetReq(keysA[1])},
		"getB-getA":   {GetReq(keysB[0]), GetReq(keysA[1])},
		"mget-split":  {MGetReq(keysA[0], keysB[0])},
		"del-get":     {DelReq(keysA[0], keysB[0]), GetReq(keysA[1])},
		"mset-sameA2": {MSetReq(keysA[0], "1", keysA[1], "2")},
	}
	var pn []string
	for n := range pipes {
		pn = append(pn, n)
	}
	sort.Strings(pn)
	for _, n := range pn {
		for _, kind := range []string{"backend-close", "backend-rst"} {
			for _, afterW := range []int{0, 1} {
				for _, cuts := range [][]int{nil, {3}} {
					cs := ClientOf(pipes[n], true)
					follow(&cs, keysA[5])
					sig := "inflight-lost-on-backend-close"
					if afterW == 0 {
						sig = "lost-on-backend-close"
					}
					if cuts != nil {
						sig = "lost-on-partial-reply-close"
					}
					add(fmt.Sprintf("%s/%s/afterW%d/cuts%v", n, kind, afterW, cuts), "backend-close", sig,
						&world.Scenario{Nodes: T3m(), Bound: b, Clients: []world.ClientSpec{cs}, ReplyCuts: cuts,
							Faults: []world.Fault{{Kind: kind, Addr: AddrA, AfterW: afterW}}})
				}
			}
		}
		// the lost connection starts with a handshake (password configured): lost before / after AUTH is answered,
		// after the first request; and a replica connection (AUTH + READONLY) that serves the reads
		if n == "get" || n == "get-get" || n == "mget-split" {
			for _, kind := range []string{"backend-close", "backend-rst"} {
				for afterW := 0; afterW <= 2; afterW++ {
					cs := ClientOf(pipes[n], true)
					follow(&cs, keysA[5])
					add(fmt.Sprintf("%s/%s/password/afterW%d", n, kind, afterW), "backend-close-handshake", "inflight-lost-on-backend-close",
						&world.Scenario{Nodes: T3m(), Bound: b, Clients: []world.ClientSpec{cs}, Password: "secret",
							Faults: []world.Fault{{Kind: kind, Addr: AddrA, AfterW: afterW}}})
					if kind == "backend-close" {
						cs2 := ClientOf(pipes[n], true)
						follow(&cs2, keysA[5])
						nodes := append(T3m(), world.NodeSpec{Name: "a1", Addr: AddrA1, Master: "aaa"})
						add(fmt.Sprintf("%s/%s/password+replica/afterW%d", n, kind, afterW+1), "backend-close-handshake", "inflight-lost-on-backend-close",
							&world.Scenario{Nodes: nodes, Bound: b, Clients: []world.ClientSpec{cs2}, Password: "secret",
								Faults: []world.Fault{{Kind: kind, Addr: AddrA1, AfterW: afterW + 1}}})
					}
				}
			}
		}
		// two connections per node: the lost one carries only part of the node's requests
		if n == "get-get" || n == "mget-split" || n == "mset-sameA2" {
			for _, kind := range []string{"backend-close", "backend-rst"} {
				cs := ClientOf(pipes[n], true)
				follow(&cs, keysA[5])
				add(fmt.Sprintf("%s/%s/2conns-per-node", n, kind), "backend-close-several-connections", "inflight-lost-on-backend-close",
					&world.Scenario{Nodes: T3m(), Bound: b, Clients: []world.ClientSpec{cs}, ServerConns: 2,
						Faults: []world.Fault{{Kind: kind, Addr: AddrA, AfterW: 1}}})
			}
		}
		// two clients sharing the lost connection
		cs0 := ClientOf(pipes[n], true)
		cs1 := ClientOf([]Req{GetReq(keysA[6])}, true)
		follow(&cs1, keysA[7])
		add(fmt.Sprintf("%s/2clients", n), "backend-close", "inflight-lost-on-backend-close",
			&world.Scenario{Nodes: T3m(), Bound: b, Clients: []world.ClientSpec{cs0, cs1}, Faults: []world.Fault{{Kind: "backend-close", Addr: AddrA, AfterW: 1}}})
	}
	// the node dies INSIDE a reply; the request is answered with an error, the next request dials a new connection and its
	// reply arrives in pieces: it must be answered (state left by the dead connection must not stall the new one)
	for _, kind := range []string{"backend-close", "backend-rst"} {
		for _, cut := range []int{1, 3, 7} {
			sc := BackendLossMidReply(kind, cut, b)
			cs := &sc.Clients[0]
			follow(cs, keysA[6])
			add(fmt.Sprintf("loss-mid-reply/%s/cut%d", kind, cut), "backend-close-mid-reply", "lost-on-partial-reply-close", sc)
		}
	}
	// the lost connection still has unsent request bytes parked for a node that stopped reading; and a CLIENT with a reply
	// backlog is closed: in both cases the final flush cannot complete and closing must not hang the loop
	for _, kind := range []string{"backend-rst", "backend-close"} {
		sc := CloseBackendWithBacklog("C15", kind, b)
		sc.Ticks = nil
		add(fmt.Sprintf("close-with-backlog/%s", kind), "close-with-backlog", "lost-on-backend-close", sc)
		sc.Check = CloseBackendWithBacklog("C15", kind, b).Check
	}
	for _, how := range []string{"quit", "garbage"} {
		sc := CloseClientWithBacklog("C15", how, b)
		out = append(out, sc)
	}
	// a client with a request pending on a node connection disconnects; only THEN is that node connection lost (or the pending
	// request answered with a redirect that cannot be followed): the loop survives, another client is served
	for _, kind := range []string{"backend-close", "backend-rst", "redirect-unknown"} {
		for _, first := range []string{"get", "mget"} {
			stalled := keysA[0]
			var r Req
			if first == "get" {
				r = GetReq(stalled)
			} else {
				r = MGetReq(stalled, keysB[0])
			}
			gone := ClientOf([]Req{r}, true)
			gone.CloseAfter = 1
			gone.Expect = [][]byte{nil}
			other := ClientOf([]Req{GetReq(keysA[3])}, true)
			other.Chunks[0].Gate = func(w *world.World) bool { return w.Clients[0].Sock != nil && w.Clients[0].Sock.Closed }
			follow(&other, keysA[4])
			sc := &world.Scenario{Nodes: T3m(), Bound: b, Clients: []world.ClientSpec{gone, other}}
			closedFirst := func(w *world.World) bool { return w.Clients[0].Sock != nil && w.Clients[0].Sock.Closed }
			if kind == "redirect-unknown" {
				sc.Reply = func(w *world.World, bc *world.BConn, args [][]byte) ([]byte, int) {
					if hasKey(args, stalled) {
						return movedTo(world.SpecSlot([]byte(stalled)), "10.9.9.9:7000"), 1 // arrives after the first clock tick
					}
					return nil, 0
				}
				sc.TickGate = closedFirst
			} else {
				sc.Reply = func(w *world.World, bc *world.BConn, args [][]byte) ([]byte, int) {
					if hasKey(args, stalled) {
						return world.ValueOf([]byte(stalled)), -1
					}
					return nil, 0
				}
				sc.Faults = []world.Fault{{Kind: kind, Addr: AddrA, AfterW: 1, Gate: closedFirst}}
			}
			add(fmt.Sprintf("client-gone-then-%s/%s", kind, first), "client-gone-then-backend-lost", "inflight-lost-on-backend-close", sc)
		}
	}
	// redirect naming a node the proxy does not know
	for _, n := range []string{"get", "mget-split", "get-get"} {
		cs := ClientOf(pipes[n], true)
		follow(&cs, keysA[5])
		key := keysA[0]
		sc := &world.Scenario{Nodes: T3m(), Bound: b, Clients: []world.ClientSpec{cs}}
		sc.Reply = func(w *world.World, bc *world.BConn, args [][]byte) ([]byte, int) {
			if hasKey(args, key) {
				return movedTo(world.SpecSlot([]byte(key)), "10.9.9.9:7000"), 0
			}
			return nil, 0
		}
		add(fmt.Sprintf("%s/moved-to-unknown", n), "unknown-redirect", "lost-on-unknown-redirect-target", sc)
		// redirect to a known node whose dial is refused
		cs2 := ClientOf(pipes[n], true)
		follow(&cs2, keysA[5])
		sc2 := &world.Scenario{Nodes: T3m(), Bound: b, Clients: []world.ClientSpec{cs2}, RefuseDial: map[string]int{AddrC: -1}}
		sc2.Reply = func(w *world.World, bc *world.BConn, args [][]byte) ([]byte, int) {
			if hasKey(args, key) {
				return movedTo(world.SpecSlot([]byte(key)), AddrC), 0
			}
			return nil, 0
		}
		add(fmt.Sprintf("%s/moved-to-unreachable", n), "unknown-redirect", "lost-on-unreachable-redirect-target", sc2)
	}
	// dial refused on first use (then accepted)
	for _, n := range []string{"get", "mget-split"} {
		cs := ClientOf(pipes[n], true)
		follow(&cs, keysA[5])
		add(fmt.Sprintf("%s/dial-refused-once", n), "dial", "lost-on-dial-refused",
			&world.Scenario{Nodes: T3m(), Bound: b, Clients: []world.ClientSpec{cs}, RefuseDial: map[string]int{AddrA: 1}, RetryTimeoutMs: 10})
	}
	// node removed from the topology while requests are in flight
	for _, n := range []string{"get", "mget-split"} {
		cs := ClientOf(pipes[n], true)
		r := GetReq(keysB[5])
		cs.Chunks = append(cs.Chunks, world.Chunk{Data: r.Bytes, WaitTicks: 2})
		cs.Reqs = append(cs.Reqs, r.Bytes)
		cs.Expect = append(cs.Expect, r.Expect)
		newTopo := []world.NodeSpec{
			{Name: "ddd", Addr: AddrD, Slots: [][2]int{{0, 5460}}},
			{Name: "bbb", Addr: AddrB, Slots: [][2]int{{5461, 10922}}},
			{Name: "ccc", Addr: AddrC, Slots: [][2]int{{10923, 16383}}},
		}
		sc := &world.Scenario{Nodes: append(T3m(), world.NodeSpec{Name: "ddd", Addr: AddrD, Flags: "fail"}), Bound: b, Clients: []world.ClientSpec{cs},
			Faults: []world.Fault{{Kind: "topo", Nodes: newTopo}}}
		sc.Reply = func(w *world.World, bc *world.BConn, args [][]byte) ([]byte, int) {
			if bc.Addr == AddrA && world.Lower(args[0]) != "cluster" {
				return nil, -1 // the node that is about to be removed never answers
			}
			return nil, 0
		}
		add(fmt.Sprintf("%s/node-removed", n), "node-removal", "lost-on-node-removal", sc)
		sc.Ticks = []time.Duration{1100 * time.Millisecond, 1100 * time.Millisecond}
		// the ticker adopts a new topology on its next round: the clock only moves on after the update arrived
		sc.TickGate = func(w *world.World) bool { return w.FaultsDone() }
	}
	// the node is lost for good: its connection goes away AND it refuses every new one; requests routed to it later are
	// answered with an error and the proxy keeps serving the other nodes
	for _, kind := range []string{"backend-close", "backend-rst"} {
		for _, afterW := range []int{0, 1} {
			cs := ClientOf(pipes["get"], true)
			follow(&cs, keysA[5])
			follow(&cs, keysC[2])
			add(fmt.Sprintf("get/%s/afterW%d/node-gone-for-good", kind, afterW), "node-lost-completely", "inflight-lost-on-backend-close",
				&world.Scenario{Nodes: T3m(), Bound: b, Clients: []world.ClientSpec{cs},
					Faults: []world.Fault{{Kind: "node-down", Addr: AddrA}, {Kind: kind, Addr: AddrA, AfterW: afterW}}})
		}
	}
	return out
}

// ---------------------------------------------------------------------------------------------
// C16: a timed-out request gets one timeout error, in position; the connection stays usable.

func c16Scenarios(tier string) []*world.Scenario {
	var out []*world.Scenario
	b := 2
	if tier == "thorough" {
		b = 4
	}
	type item struct {
		r    Req
		keys []string
	}
	pipes := map[string][]item{
		"A":     {{GetReq(keysA[0]), []string{keysA[0]}}},
		"A,B":   {{GetReq(keysA[0]), []string{keysA[0]}}, {GetReq(keysB[0]), []string{keysB[0]}}},
		"B,A":   {{GetReq(keysB[0]), []string{keysB[0]}}, {GetReq(keysA[0]), []string{keysA[0]}}},
		"A,B,A": {{GetReq(keysA[0]), []string{keysA[0]}}, {GetReq(keysB[0]), []string{keysB[0]}}, {GetReq(keysA[1]), []string{keysA[1]}}},
		"M2":    {{MGetReq(keysA[0], keysB[0]), []string{keysA[0], keysB[0]}}},
		"M2,A":  {{MGetReq(keysA[0], keysB[0]), []string{keysA[0], keysB[0]}}, {GetReq(keysA[1]), []string{keysA[1]}}},
		"A,D2":  {{GetReq(keysA[1]), []string{keysA[1]}}, {DelReq(keysA[0], keysB[0]), []string{keysA[0], keysB[0]}}},
	}
	var pn []string
	for n := range pipes {
		pn = append(pn, n)
	}
	sort.Strings(pn)
	for _, n := range pn {
		p := pipes[n]
		// fragment keys that can stall
		var fkeys []string
		for _, it := range p {
			fkeys = append(fkeys, it.keys...)
		}
		for _, sub := range subsets(fkeys) {
			for _, late := range []bool{false, true} {
				stall := map[string]bool{}
				for _, k := range sub {
					stall[k] = true
				}
				var reqs []Req
				alts := map[int][]byte{}
				nfrag := 0
				for i, it := range p {
					r := it.r
					nfrag += len(it.keys)
					for _, k := range it.keys {
						if stall[k] {
							if late {
								alts[i] = it.r.Expect
							}
							r.Expect = []byte(world.RErrTimeout)
						}
					}
					reqs = append(reqs, r)
				}
				// a stalled reply blocks the replies queued behind it on the same connection, so requests
				// to the same node that come later time out as well
				stalledNode := map[string]bool{}
				for i, it := range p {
					for _, k := range it.keys {
						node := AddrA
						for _, kb := range keysB {
							if kb == k {
								node = AddrB
							}
						}
						if stall[k] {
							stalledNode[node] = true
						} else if stalledNode[node] {
							if late {
								alts[i] = p[i].r.Expect
							}
							reqs[i].Expect = []byte(world.RErrTimeout)
						}
					}
				}
				cs := ClientOf(reqs, true)
				cs.ExpectAlt = alts
				r4 := GetReq(keysC[3])
				cs.Chunks = append(cs.Chunks, world.Chunk{Data: r4.Bytes, WaitTicks: 1})
				cs.Reqs = append(cs.Reqs, r4.Bytes)
				cs.Expect = append(cs.Expect, r4.Expect)
				sc := &world.Scenario{Nodes: T3m(), Bound: b, Horizon: 300, TimeoutMs: 100, Clients: []world.ClientSpec{cs},
					Ticks: []time.Duration{150 * time.Millisecond}, Family: "stall"}
				hold := -1
				if late {
					hold = 1
				}
				nf := nfrag
				sc.TickGate = func(w *world.World) bool { return len(w.DataCmds("")) >= nf }
				sc.Reply = func(w *world.World, bc *world.BConn, args [][]byte) ([]byte, int) {
					for k := range stall {
						if hasKey(args, k) {
							return world.DefaultReply(world.Lower(args[0]), args), hold
						}
					}
					return nil, 0
				}
				sc.Name = fmt.Sprintf("C16/%s/stall{%s}/late=%v/d%d", n, strings.Join(sub, ","), late, b)
				nreq := len(reqs)
				pcopy := p
				sc.Check = func(w *world.World) []world.Violation {
					// a request whose backend reply had not been read by the proxy when the clock passed its
					// deadline may legitimately be answered with the timeout error instead
					lateOK := map[int]bool{}
					if len(w.TickUnread) > 0 {
						for i, it := range pcopy {
							for _, rec := range w.Cmds {
								for _, k := range it.keys {
									if hasKey(rec.Args, k) && w.TickUnread[0][rec.Seq] {
										lateOK[i] = true
									}
								}
							}
						}
					}
					vs := CheckStreams(w, StreamOpts{Alt: func(ci, j int) []byte {
						if ci == 0 && lateOK[j] {
							return []byte(world.RErrTimeout)
						}
						return nil
					}})
					for i := range vs {
						c := w.Clients[0]
						rs, _, _ := world.SplitReplies(c.Received)
						nto := 0
						for _, r := range rs {
							if bytes.Equal(r, []byte(world.RErrTimeout)) {
								nto++
							}
						}
						switch vs[i].Sig {
						case "missing-tail":
							if nto > 0 {
								vs[i].Sig = "queue-stuck-after-timeout"
							}
						case "forwarded-swap", "corrupt":
							if nto > 0 {
								vs[i].Sig = "timeout-error-out-of-position"
							}
						case "duplicate", "extra-bytes":
							vs[i].Sig = "timeout-duplicated-or-late-reply-delivered"
						}
					}
					_ = nreq
					return vs
				}
				out = append(out, sc)
				if !late {
					// the same while the proxy is busy: the clock passes the deadline without epoll_wait ever returning "no events"
					busy := *sc
					busy.BusyTicks = true
					busy.Name += "/busy"
					busy.Family = "stall-busy"
					out = append(out, &busy)
				}
				if n == "A,B,A" || n == "M2,A" {
					// two connections per node: requests to one node travel on different connections, deadlines are per fragment
					two := *sc
					two.ServerConns = 2
					two.Name += "/2conns-per-node"
					two.Family = "stall-several-connections"
					// with two connections a later request to the stalled NODE need not queue behind the stalled reply
					cl := two.Clients[0]
					cl.ExpectAlt = map[int][]byte{}
					for k, v := range cs.ExpectAlt {
						cl.ExpectAlt[k] = v
					}
					for i := range pcopy {
						if _, ok := cl.ExpectAlt[i]; !ok {
							cl.ExpectAlt[i] = pcopy[i].r.Expect
						}
					}
					two.Clients = []world.ClientSpec{cl}
					out = append(out, &two)
				}
			}
		}
	}
	// the request object of a timed-out request is recycled; its late reply arrives before / while the NEXT request, a
	// split one whose fragments are answered at different times, uses that object: it must be answered completely
	for _, lateKind := range []string{"value", "moved", "ask", "error"} {
		for _, kind := range []string{"mget", "del", "mset", "get"} {
			for _, first := range []string{"get", "mget"} {
				if lateKind != "value" && (kind == "del" || kind == "mset") {
					continue
				}
				lateKind := lateKind
				stalled := keysA[0]
				var r1 Req
				if first == "get" {
					r1 = GetReq(stalled)
				} else {
					r1 = MGetReq(stalled, keysB[5])
				}
				late := r1.Expect
				r1.Expect = []byte(world.RErrTimeout)
				var r2 Req
				switch kind {
				case "mget":
					r2 = MGetReq(keysB[1], keysC[1])
				case "del":
					r2 = DelReq(keysB[1], keysC[1])
				case "mset":
					r2 = MSetReq(keysB[1], "1", keysC[1], "2")
				default:
					r2 = GetReq(keysB[1])
				}
				r3 := GetReq(keysC[3])
				cs := ClientOf([]Req{r1, r2, r3}, false)
				cs.Chunks[1].WaitTicks, cs.Chunks[1].WaitReplies = 1, 1
				cs.Chunks[2].WaitTicks, cs.Chunks[2].WaitReplies = 1, 1
				cs.ExpectAlt = map[int][]byte{0: late}
				sc := &world.Scenario{Nodes: T3m(), Bound: b + 1, Horizon: 300, TimeoutMs: 100, Clients: []world.ClientSpec{cs},
					Ticks: []time.Duration{150 * time.Millisecond}, Family: "recycled-after-timeout"}
				nf := 1
				if first == "mget" {
					nf = 2
				}
				sc.TickGate = func(w *world.World) bool { return len(w.DataCmds("")) >= nf }
				if lateKind == "error" {
					cs.ExpectAlt = map[int][]byte{0: []byte("-ERR late\r\n")}
					sc.Clients[0].ExpectAlt = cs.ExpectAlt
				}
				sc.Reply = func(w *world.World, bc *world.BConn, args [][]byte) ([]byte, int) {
					if hasKey(args, stalled) && bc.Addr == AddrA {
						switch lateKind {
						case "moved":
							return []byte(fmt.Sprintf("-MOVED %d %s\r\n", world.SpecSlot([]byte(stalled)), AddrB)), 1
						case "ask":
							return []byte(fmt.Sprintf("-ASK %d %s\r\n", world.SpecSlot([]byte(stalled)), AddrB)), 1
						case "error":
							return []byte("-ERR late\r\n"), 1
						}
						return world.DefaultReply(world.Lower(args[0]), args), 1
					}
					return nil, 0
				}
				sc.Name = fmt.Sprintf("C16/recycled-after-timeout/%s-then-%s/d%d", first, kind, sc.Bound)
				if lateKind != "value" {
					sc.CrashSig = "late-redirect-after-timeout-panics"
					sc.Name = fmt.Sprintf("C16/recycled-after-timeout/late-%s/%s-then-%s/d%d", lateKind, first, kind, sc.Bound)
				}
				sc.Check = func(w *world.World) []world.Violation {
					vs := CheckStreams(w, StreamOpts{})
					for i := range vs {
						switch vs[i].Sig {
						case "missing-tail", "closed-with-pending", "unexpected-close":
							vs[i].Sig = "queue-stuck-after-timeout"
						case "corrupt", "forwarded-swap":
							vs[i].Sig = "request-after-timeout-answered-wrongly"
						case "duplicate", "extra-bytes":
							vs[i].Sig = "timeout-duplicated-or-late-reply-delivered"
						}
					}
					return vs
				}
				out = append(out, sc)
			}
		}
	}
	// the timed-out request is followed by requests the proxy answers itself, or by QUIT: the local replies and the close
	// wait for the timeout error; and the stalled request is one that was redirected first (it stalls at the target)
	for _, tail := range []string{"quit", "ping-quit", "unknown-get", "get-quit"} {
		for _, first := range []string{"get", "mget", "moved-get"} {
			stalled := keysA[0]
			var r1 Req
			switch first {
			case "get", "moved-get":
				r1 = GetReq(stalled)
			case "mget":
				r1 = MGetReq(stalled, keysB[5])
			}
			r1.Expect = []byte(world.RErrTimeout)
			reqs := []Req{r1}
			switch tail {
			case "quit":
				reqs = append(reqs, QuitReq())
			case "ping-quit":
				reqs = append(reqs, PingReq(), QuitReq())
			case "unknown-get":
				reqs = append(reqs, UnknownReq(), GetReq(keysC[2]))
			case "get-quit":
				reqs = append(reqs, GetReq(keysC[2]), QuitReq())
			}
			cs := ClientOf(reqs, true)
			sc := &world.Scenario{Nodes: T3m(), Bound: b, Horizon: 300, TimeoutMs: 100, Clients: []world.ClientSpec{cs},
				Ticks: []time.Duration{150 * time.Millisecond, time.Millisecond}, Family: "timeout-then-local-or-quit"}
			need := 1
			if first == "mget" {
				need = 2
			}
			if tail == "unknown-get" || tail == "get-quit" {
				need++
			}
			if first == "moved-get" {
				need++
			}
			// the clock jumps once every request is at its node and every reply that is going to come has been read; the
			// loop examines deadlines only after an event, so a second client says PING after the jump
			sc.TickGate = func(w *world.World) bool {
				if w.Ticks > 0 {
					return true
				}
				if len(w.DataCmds("")) < need {
					return false
				}
				for _, bc := range w.BConns {
					di := 0
					for _, rec := range bc.Log {
						if nm := world.Lower(rec.Args[0]); len(rec.Args) > 1 && nm != "cluster" && !hasKey(rec.Args, stalled) && !bc.ReadByProxy(di) {
							return false
						}
						di++
					}
				}
				return true
			}
			wake := ClientOf([]Req{PingReq()}, true)
			wake.Chunks[0].WaitTicks = 1
			sc.Clients = append(sc.Clients, wake)
			mv := first == "moved-get"
			sc.Reply = func(w *world.World, bc *world.BConn, args [][]byte) ([]byte, int) {
				if hasKey(args, stalled) {
					if mv && bc.Addr == AddrA {
						return movedTo(world.SpecSlot([]byte(stalled)), AddrB), 0
					}
					return world.DefaultReply(world.Lower(args[0]), args), -1
				}
				return nil, 0
			}
			sc.Name = fmt.Sprintf("C16/timeout-then/%s-then-%s/d%d", first, tail, b)
			sc.Check = func(w *world.World) []world.Violation {
				vs := CheckStreams(w, StreamOpts{})
				for i := range vs {
					switch vs[i].Sig {
					case "missing-tail", "closed-with-pending", "quit-drops-pending", "quit-not-closed":
						vs[i].Sig = "queue-stuck-after-timeout"
					case "corrupt", "forwarded-swap":
						vs[i].Sig = "timeout-error-out-of-position"
					case "duplicate", "extra-bytes":
						vs[i].Sig = "timeout-duplicated-or-late-reply-delivered"
					}
				}
				return vs
			}
			out = append(out, sc)
		}
	}
	// after the timeout the stalled node's connection is lost while the NEXT request (which reuses the recycled request
	// object) is still in flight to a healthy node: the timed-out fragment left on the dead connection must not fail it
	for _, kind := range []string{"backend-close", "backend-rst"} {
		for _, second := range []string{"get", "mget"} {
			stalled := keysA[0]
			r1 := GetReq(stalled)
			r1.Expect = []byte(world.RErrTimeout)
			var r2 Req
			slow := keysB[1]
			if second == "get" {
				r2 = GetReq(slow)
			} else {
				r2 = MGetReq(slow, keysC[1])
			}
			r3 := GetReq(keysC[3])
			cs := ClientOf([]Req{r1, r2, r3}, false)
			// the first byte of the next request is the event after which the loop examines the deadlines (it does so
			// only after an event); the rest follows once the timeout error has arrived and the object is recycled
			cs.Chunks = []world.Chunk{{Data: r1.Bytes}, {Data: r2.Bytes[:1], WaitTicks: 1}, {Data: r2.Bytes[1:], WaitTicks: 1, WaitReplies: 1},
				{Data: r3.Bytes, WaitTicks: 2, WaitReplies: 2}}
			sc := &world.Scenario{Nodes: T3m(), Bound: b, Horizon: 300, TimeoutMs: 100, Clients: []world.ClientSpec{cs},
				Ticks: []time.Duration{150 * time.Millisecond, time.Millisecond}, Family: "connection-lost-after-timeout",
				Faults: []world.Fault{{Kind: kind, Addr: AddrA, AfterW: 1, AfterTicks: 1,
					Gate: func(w *world.World) bool { return len(w.DataCmds(AddrB)) >= 1 }}}} // the next request is on its way
			sc.TickGate = func(w *world.World) bool {
				if w.Ticks == 0 {
					return len(w.DataCmds("")) >= 1
				}
				// second tick (releases the healthy node's reply): only after the dead connection has been torn down
				if !w.FaultsDone() || len(w.DataCmds(AddrB)) < 1 {
					return false
				}
				for _, bc := range w.BConns {
					if bc.Addr == AddrA && len(bc.Log) > 0 && world.Lower(bc.Log[len(bc.Log)-1].Args[0]) == "get" && !bc.Sock.Closed {
						return false
					}
				}
				return true
			}
			sc.Reply = func(w *world.World, bc *world.BConn, args [][]byte) ([]byte, int) {
				if hasKey(args, stalled) {
					return world.DefaultReply(world.Lower(args[0]), args), -1
				}
				if hasKey(args, slow) {
					return world.DefaultReply(world.Lower(args[0]), args), 2
				}
				return nil, 0
			}
			sc.Name = fmt.Sprintf("C16/connection-lost-after-timeout/%s/then-%s/d%d", kind, second, b)
			sc.Check = func(w *world.World) []world.Violation {
				// the stalled request itself: the timeout error, or the connection-lost error when the loss is noticed first
				vs := CheckStreams(w, StreamOpts{AnyError: func(ci, j int) bool { return j == 0 }})
				for i := range vs {
					switch vs[i].Sig {
					case "missing-tail", "closed-with-pending", "unexpected-close":
						vs[i].Sig = "queue-stuck-after-timeout"
					case "corrupt", "forwarded-swap":
						vs[i].Sig = "request-after-timeout-answered-wrongly"
					case "duplicate", "extra-bytes":
						vs[i].Sig = "timeout-duplicated-or-late-reply-delivered"
					}
				}
				return vs
			}
			out = append(out, sc)
		}
	}
	// round 10: a whole batch times out; a client that left before the deadline; hops of a redirect inside the timeout each
	for _, n := range []int{2, 4} {
		out = append(out, TimeoutBatch("C16", n, 2))
	}
	for _, rst := range []bool{false, true} {
		out = append(out, GoneBeforeDeadline("C16", rst, 2))
	}
	out = append(out, SlowHops("C16", false, 2))
	return out
}

// ---------------------------------------------------------------------------------------------
// C20: reads are spread over all healthy replicas of the owning master.

// c20BanRecovery: a replica has a short outage during which a read's dial to it fails (the request path bans it), then
// it is back. The REAL health monitor goroutines run (as cooperative threads: virtual 5 s ticker, probe outcome = node
// up?). After the outage, the ban window and one monitor round, a run of reads under every random outcome must reach
// every healthy replica again - judged separately for the executions in which the ban was actually set.
func c20BanRecovery(downIdx int, tier string) *world.Scenario {
	nodes := T3m()
	reps := []string{"10.0.1.1:7000", "10.0.1.2:7000"}
	for i, a := range reps {
		nodes = append(nodes, world.NodeSpec{Name: fmt.Sprintf("a%d", i+1), Addr: a, Master: "aaa"})
	}
	down := reps[downIdx]
	sc := &world.Scenario{Nodes: nodes, Bound: 0, FreeKinds: []string{"intn"}, IntnChoice: true, Horizon: 600, Family: "ban-recovery",
		CheckOwner: true, Monitors: true, RetryTimeoutMs: 10,
		Faults: []world.Fault{{Kind: "node-down", Addr: down}, {Kind: "node-up", Addr: down, AfterTicks: 1}},
		Ticks:  []time.Duration{time.Second, 5 * time.Second, 6 * time.Second}}
	sc.IntnGate = func(w *world.World) bool { return w.Ticks >= 3 }
	key := keysA[0]
	r := GetReq(key)
	r.Expect = nil
	pre, run := 2, 4
	var rr []Req
	for j := 0; j < pre+run; j++ {
		rr = append(rr, r)
	}
	cs := ClientOf(rr, false)
	for j := range cs.Chunks {
		cs.Chunks[j].WaitReplies = j
		if j == 0 {
			cs.Chunks[j].Gate = func(w *world.World) bool { return w.Down[down] }
		}
		if j >= pre {
			cs.Chunks[j].WaitTicks = 3
			cs.Chunks[j].Gate = func(w *world.World) bool { return w.ThreadsIdle() }
		}
	}
	sc.Clients = []world.ClientSpec{cs}
	// the clock moves on only when the client has its replies so far, the node is back, and the monitors have had their turn
	sc.TickGate = func(w *world.World) bool {
		switch w.Ticks {
		case 0:
			return len(w.Clients) > 0 && w.Clients[0].NReplies >= pre
		case 1:
			return w.FaultsDone()
		default:
			return w.ThreadsIdle()
		}
	}
	sc.Name = fmt.Sprintf("C20/ban-recovery/down=%s", down)
	sc.Observe = func(w *world.World) string {
		set := map[string]bool{}
		n := 0
		for _, rec := range w.DataCmds("") {
			if hasKey(rec.Args, key) && !world.IsError(rec.Reply) {
				n++
				if rec.CR >= pre {
					set[rec.Addr] = true
				}
			}
		}
		var l []string
		for a := range set {
			l = append(l, a)
		}
		sort.Strings(l)
		return fmt.Sprintf("dialfail=%v|%s", w.DialCount(down) > 0 && w.Clients[0].NReplies >= pre && dialFailed(w, down), strings.Join(l, ","))
	}
	sc.Check = func(w *world.World) []world.Violation {
		c := w.Clients[0]
		rs, rest, malformed := world.SplitReplies(c.Received)
		if malformed || len(rest) > 0 || len(rs) != pre+run {
			return []world.Violation{{Sig: "healthy-replica-unreachable", Msg: fmt.Sprintf("client received %d of %d replies: %q", len(rs), pre+run, c.Received)}}
		}
		for j := pre; j < len(rs); j++ {
			if world.IsError(rs[j]) {
				return []world.Violation{{Sig: "healthy-replica-unreachable", Msg: fmt.Sprintf("read %d, sent after the outage, the ban window and a monitor round, was answered %q", j, rs[j])}}
			}
		}
		return nil
	}
	sc.Final = func(obs map[string]int) []world.Violation {
		for _, grp := range []string{"dialfail=true", "dialfail=false"} {
			served := map[string]bool{}
			n := 0
			for k, cnt := range obs {
				parts := strings.SplitN(k, "|", 2)
				if parts[0] != grp {
					continue
				}
				n += cnt
				for _, a := range strings.Split(parts[1], ",") {
					if a != "" {
						served[a] = true
					}
				}
			}
			if n == 0 {
				continue
			}
			for _, h := range reps {
				if !served[h] {
					var seen []string
					for a := range served {
						seen = append(seen, a)
					}
					sort.Strings(seen)
					return []world.Violation{{Sig: "healthy-replica-unreachable", Msg: fmt.Sprintf("replica %s was unreachable for a moment (%s: a read's dial to it failed during the outage), then came back; after the ban window and a health-monitor round, over ALL random outcomes of a run of %d reads (%d executions) it never serves a read again; served by {%s}", down, grp, run, n, strings.Join(seen, ", "))}}
				}
			}
		}
		return nil
	}
	return sc
}

// dialFailed: a dial to addr was attempted while it was down (the request path has seen the outage).
func dialFailed(w *world.World, addr string) bool {
	n := 0
	for _, bc := range w.BConns {
		if bc.Addr == addr {
			n++
		}
	}
	return w.DialCount(addr) > n
}

func c20Scenarios(tier string) []*world.Scenario {
	out := c20Reparent()
	out = append(out, c20BanRecovery(0, tier), c20BanRecovery(1, tier))
	// a replica leaves the description for one update (a transient failure flag) and is listed again at the same address:
	// afterwards it serves reads like its sibling
	{
		base := append(T3m(),
			world.NodeSpec{Name: "a1", Addr: AddrA1, Master: "aaa"},
			world.NodeSpec{Name: "a2", Addr: AddrA2, Master: "aaa"},
			world.NodeSpec{Name: "b1", Addr: AddrB1, Master: "bbb"})
		without := append(T3m(),
			world.NodeSpec{Name: "a1", Addr: AddrA1, Master: "aaa"},
			world.NodeSpec{Name: "a2", Addr: AddrA2, Master: "aaa", Flags: "fail?", Link: "disconnected"},
			world.NodeSpec{Name: "b1", Addr: AddrB1, Master: "bbb"})
		for _, gone := range []string{"flagged-fail", "absent"} {
			wo := without
			if gone == "absent" {
				wo = append(append([]world.NodeSpec{}, without[:4]...), without[5:]...)
			}
			sc := c20TrafficMix(2, "R", 5)
			sc.Nodes = base
			sc.Family = "replica-left-and-returned"
			sc.Name = "C20/replica-left-and-returned/" + gone
			sc.Faults = []world.Fault{{Kind: "topo", Nodes: wo}, {Kind: "topo", Nodes: base, AfterTicks: 1}}
			sc.Ticks = []time.Duration{1100 * time.Millisecond, 1100 * time.Millisecond}
			sc.TickGate = func(w *world.World) bool {
				return (w.Ticks == 0 && len(w.Sc.Faults) > 0 && w.FaultsUsed() >= 1) || (w.Ticks == 1 && w.FaultsDone())
			}
			cl := sc.Clients[0]
			for j := range cl.Chunks {
				cl.Chunks[j].WaitTicks = 2
			}
			sc.Clients = []world.ClientSpec{cl}
			out = append(out, sc)
		}
	}
	// the node description lists replicas BEFORE their masters (CLUSTER NODES output has no particular order): every
	// replica still serves reads
	for nrep := 2; nrep <= 3; nrep++ {
		sc := c20TrafficMix(nrep, "R", 4)
		var reps, masters []world.NodeSpec
		for _, n := range sc.Nodes {
			if n.Master != "" {
				reps = append(reps, n)
			} else {
				masters = append(masters, n)
			}
		}
		// replica, master C, replica, master A, replica..., master B
		var order []world.NodeSpec
		order = append(order, reps[0], masters[2])
		order = append(order, reps[1:]...)
		order = append(order, masters[0], masters[1])
		sc.Nodes = order
		sc.Family = "replicas-listed-first"
		sc.Name = fmt.Sprintf("C20/replicas-listed-before-masters/%drep", nrep)
		out = append(out, sc)
	}
	for _, pat := range []string{"WR", "PR", "OR", "RW", "WWR", "WRR", "PWR", "RPR", "WPWR", "WRWWR"} {
		out = append(out, c20TrafficMix(2, pat, 4))
		if len(pat) <= 3 || tier == "thorough" {
			out = append(out, c20TrafficMix(3, pat, 3))
		}
	}
	for nrep := 2; nrep <= 3; nrep++ {
		// per replica: healthy / pool missing (node not in the proxy's pool map because its address is unknown)
		for mask := 0; mask < 1<<nrep; mask++ {
			for _, cmd := range []string{"get", "set", "hscan", "mget"} {
				nodes := T3m()
				var healthy []string
				for i := 0; i < nrep; i++ {
					addr := fmt.Sprintf("10.0.1.%d:7000", i+1)
					nodes = append(nodes, world.NodeSpec{Name: fmt.Sprintf("a%d", i+1), Addr: addr, Master: "aaa"})
					if mask&(1<<i) == 0 {
						healthy = append(healthy, addr)
					}
				}
				nodes = append(nodes, world.NodeSpec{Name: "b1", Addr: AddrB1, Master: "bbb"})
				if len(healthy) < 2 {
					continue
				}
				for _, pw := range []string{"", "secret"} {
					if pw != "" && (cmd == "hscan" || mask != 0) {
						continue
					}
					m := mask
					// nodes behave like cluster nodes: a replica serves a read only on a connection switched to READONLY,
					// otherwise it answers -MOVED <master>; a read only counts as served by the node that answered it with data
					sc := &world.Scenario{Nodes: nodes, Bound: 0, FreeKinds: []string{"intn"}, IntnChoice: true, Horizon: 300, Family: "spread", CheckOwner: true, Password: pw}
					sc.AfterBoot = func(w *world.World) {
						for i := 0; i < nrep; i++ {
							if m&(1<<i) != 0 {
								// the health monitor banned this replica a long time ago: flag set, lift time passed
								core.VerifSetBan(fmt.Sprintf("10.0.1.%d:7000", i+1), true, false)
							}
						}
					}
					key := keysA[0]
					var r Req
					switch cmd {
					case "get":
						r = GetReq(key)
					case "set":
						r = SetReq(key, "v")
					case "hscan":
						r = Req{Kind: "HSCAN", Bytes: world.Cmd("hscan", key, "0"), Expect: nil}
					case "mget":
						r = MGetReq(key, keysB[0])
					}
					// a run of reads in one execution (closed loop), so that an implementation that rotates deterministically
					// instead of drawing at random is judged by the same possibilistic criterion
					run := len(healthy) + 1
					if cmd == "set" || cmd == "hscan" {
						run = 2
					}
					var rr []Req
					for j := 0; j < run; j++ {
						rr = append(rr, r)
					}
					cs := ClientOf(rr, false)
					for j := range cs.Chunks {
						cs.Chunks[j].WaitReplies = j
					}
					sc.Clients = []world.ClientSpec{cs}
					sc.Name = fmt.Sprintf("C20/%drep/banned-mask%d/%s/pw=%v", nrep, mask, cmd, pw != "")
					write := cmd == "set" || cmd == "hscan"
					hl := append([]string{}, healthy...)
					sc.Observe = func(w *world.World) string {
						set := map[string]bool{}
						for _, rec := range w.DataCmds("") {
							if hasKey(rec.Args, key) && !world.IsError(rec.Reply) {
								set[rec.Addr] = true
							}
						}
						var l []string
						for a := range set {
							l = append(l, a)
						}
						sort.Strings(l)
						return strings.Join(l, ",")
					}
					sc.Check = func(w *world.World) []world.Violation {
						var vs []world.Violation
						for _, rec := range w.DataCmds("") {
							if !hasKey(rec.Args, key) {
								continue
							}
							ok := rec.Addr == AddrA
							if !write {
								// any replica of A is inside the owning set; which banned ones count as usable is not judged here
								for i := 0; i < nrep; i++ {
									if rec.Addr == fmt.Sprintf("10.0.1.%d:7000", i+1) {
										ok = true
									}
								}
							}
							if !ok {
								sig := "foreign-node-selected"
								if write {
									sig = "write-not-to-master"
								}
								vs = append(vs, world.Violation{Sig: sig, Msg: fmt.Sprintf("%q sent to %s (healthy replicas of the owning master: %v)", rec.Raw, rec.Addr, hl)})
							}
						}
						if len(vs) == 0 {
							vs = CheckStreams(w, StreamOpts{})
						}
						return vs
					}
					sc.Final = func(obs map[string]int) []world.Violation {
						if write {
							return nil
						}
						// union, over all random outcomes and all reads of the run, of the nodes that served a read
						served := map[string]bool{}
						for k := range obs {
							for _, a := range strings.Split(k, ",") {
								if a != "" {
									served[a] = true
								}
							}
						}
						var missing, seen []string
						for _, h := range hl {
							if !served[h] {
								missing = append(missing, h)
							}
						}
						for a := range served {
							seen = append(seen, a)
						}
						sort.Strings(seen)
						if len(missing) > 0 {
							sig := "healthy-replica-unreachable"
							if len(seen) == 1 {
								sig = "only-one-replica-ever-selected"
							}
							return []world.Violation{{Sig: sig, Msg: fmt.Sprintf("over ALL outcomes of the random choices of a run of reads, reads of a slot of master A are only ever served by {%s}; healthy replicas never selected: %v", strings.Join(seen, ", "), missing)}}
						}
						return nil
					}
					out = append(out, sc)
				}
			}
		}
	}
	// round 11: every second scenario runs against nodes that describe themselves as Redis 7 (INFO has async_loading after
	// loading); what the proxy concludes about a node must not depend on the node's version
	for i, sc := range out {
		if i%2 == 1 && sc.Info == nil {
			sc.Info = func(addr string) (*redis.Info, error) {
				return &redis.Info{Version: "7.0.5", MasterLinkStatus: "up"}, nil
			}
		}
	}
	return out
}

// c20TrafficMix: reads interleaved with other traffic in a fixed period (a write, a locally answered PING, a read of
// another master's slot between the reads): whatever the mix, over all random outcomes of a run every healthy replica
// serves some read (a selection driven by a counter that other traffic advances too fails this for some mix).
func c20TrafficMix(nrep int, pattern string, periods int) *world.Scenario {
	nodes := T3m()
	var healthy []string
	for i := 0; i < nrep; i++ {
		addr := fmt.Sprintf("10.0.1.%d:7000", i+1)
		nodes = append(nodes, world.NodeSpec{Name: fmt.Sprintf("a%d", i+1), Addr: addr, Master: "aaa"})
		healthy = append(healthy, addr)
	}
	sc := &world.Scenario{Nodes: nodes, Bound: 0, FreeKinds: []string{"intn"}, IntnChoice: true, Horizon: 600, Family: "traffic-mix", CheckOwner: true}
	key, wkey, okey := keysA[0], keysA[1], keysC[0]
	var rr []Req
	for p := 0; p < periods; p++ {
		for _, c := range pattern {
			switch c {
			case 'R':
				rr = append(rr, GetReq(key))
			case 'W':
				rr = append(rr, SetReq(wkey, "v"))
			case 'P':
				rr = append(rr, PingReq())
			case 'O':
				rr = append(rr, GetReq(okey))
			}
		}
	}
	cs := ClientOf(rr, false)
	for j := range cs.Chunks {
		cs.Chunks[j].WaitReplies = j
	}
	sc.Clients = []world.ClientSpec{cs}
	sc.Name = fmt.Sprintf("C20/traffic-mix/%drep/(%s)x%d", nrep, pattern, periods)
	sc.Observe = func(w *world.World) string {
		set := map[string]bool{}
		for _, rec := range w.DataCmds("") {
			if hasKey(rec.Args, key) && !world.IsError(rec.Reply) {
				set[rec.Addr] = true
			}
		}
		var l []string
		for a := range set {
			l = append(l, a)
		}
		sort.Strings(l)
		return strings.Join(l, ",")
	}
	sc.Check = func(w *world.World) []world.Violation {
		for _, rec := range w.DataCmds("") {
			if hasKey(rec.Args, wkey) && rec.Addr != AddrA {
				return []world.Violation{{Sig: "write-not-to-master", Msg: fmt.Sprintf("%q sent to %s", rec.Raw, rec.Addr)}}
			}
		}
		return CheckStreams(w, StreamOpts{})
	}
	sc.Final = func(obs map[string]int) []world.Violation {
		served := map[string]bool{}
		n := 0
		for k, c := range obs {
			n += c
			for _, a := range strings.Split(k, ",") {
				if a != "" {
					served[a] = true
				}
			}
		}
		var missing, seen []string
		for _, h := range healthy {
			if !served[h] {
				missing = append(missing, h)
			}
		}
		for a := range served {
			seen = append(seen, a)
		}
		sort.Strings(seen)
		if len(missing) > 0 {
			return []world.Violation{{Sig: "healthy-replica-unreachable", Msg: fmt.Sprintf("traffic mix (%s) repeated %d times: over ALL outcomes of the random choices (%d executions) the reads of one slot of master A are only ever served by {%s}; healthy replicas never selected: %v", pattern, periods, n, strings.Join(seen, ", "), missing)}}
		}
		return nil
	}
	return sc
}

// c20Reparent: a replica is re-parented to another master (nothing else changes): after the refresh it must serve
// reads for its NEW master's slots, and no longer for the old one's.
func c20Reparent() []*world.Scenario {
	var out []*world.Scenario
	before := append(T3m(),
		world.NodeSpec{Name: "a1", Addr: AddrA1, Master: "aaa"},
		world.NodeSpec{Name: "a2", Addr: AddrA2, Master: "aaa"},
		world.NodeSpec{Name: "b1", Addr: AddrB1, Master: "bbb"})
	after := append(T3m(),
		world.NodeSpec{Name: "a1", Addr: AddrA1, Master: "aaa"},
		world.NodeSpec{Name: "a2", Addr: AddrA2, Master: "bbb"},
		world.NodeSpec{Name: "b1", Addr: AddrB1, Master: "bbb"})
	// a manual failover: replica a1 and master A swap roles (both keep their pools, whose role flips); a2 follows a1
	swapped := []world.NodeSpec{
		{Name: "a1", Addr: AddrA1, Slots: [][2]int{{0, 5460}}},
		{Name: "bbb", Addr: AddrB, Slots: [][2]int{{5461, 10922}}},
		{Name: "ccc", Addr: AddrC, Slots: [][2]int{{10923, 16383}}},
		{Name: "aaa", Addr: AddrA, Master: "a1"},
		{Name: "a2", Addr: AddrA2, Master: "a1"},
		{Name: "b1", Addr: AddrB1, Master: "bbb"}}
	type tc struct {
		target   string
		after    []world.NodeSpec
		key      string
		want     []string
		masterOK string
		what     string
	}
	for _, c := range []tc{
		{"new-master-slot", after, keysB[0], []string{AddrA2, AddrB1}, AddrB, "replica " + AddrA2 + " moved from master A to master B"},
		{"old-master-slot", after, keysA[0], []string{AddrA1}, AddrA, "replica " + AddrA2 + " moved from master A to master B"},
		{"role-swap", swapped, keysA[0], []string{AddrA, AddrA2}, AddrA1, "master A and its replica " + AddrA1 + " swapped roles"},
	} {
		target, after, key, want := c.target, c.after, c.key, c.want
		what := c.what
		sc := &world.Scenario{Nodes: before, Bound: 0, FreeKinds: []string{"intn"}, IntnChoice: true, Horizon: 300, Family: "reparent",
			Faults: []world.Fault{{Kind: "topo", Nodes: after}}, Ticks: []time.Duration{1100 * time.Millisecond}}
		sc.TickGate = func(w *world.World) bool { return w.FaultsDone() }
		r := GetReq(key)
		cs := ClientOf([]Req{r, r, r}, false)
		for j := range cs.Chunks {
			cs.Chunks[j].WaitTicks, cs.Chunks[j].WaitReplies = 1, j
		}
		sc.Clients = []world.ClientSpec{cs}
		sc.Name = "C20/reparent/" + target
		masterOK := c.masterOK
		if target == "role-swap" {
			// a write after the swap goes to the new master and is served
			wr := SetReq(keysA[1], "v")
			cs.Chunks = append(cs.Chunks, world.Chunk{Data: wr.Bytes, WaitTicks: 1, WaitReplies: 3})
			cs.Reqs = append(cs.Reqs, wr.Bytes)
			cs.Expect = append(cs.Expect, wr.Expect)
			sc.Clients = []world.ClientSpec{cs}
		}
		k := key
		w0 := append([]string{}, want...)
		sc.Observe = func(w *world.World) string {
			set := map[string]bool{}
			for _, rec := range w.DataCmds("") {
				if hasKey(rec.Args, k) {
					set[rec.Addr] = true
				}
			}
			var l []string
			for a := range set {
				l = append(l, a)
			}
			sort.Strings(l)
			return strings.Join(l, ",")
		}
		sc.Check = func(w *world.World) []world.Violation { return CheckStreams(w, StreamOpts{}) }
		sc.Final = func(obs0 map[string]int) []world.Violation {
			obs := map[string]int{}
			for k2 := range obs0 {
				for _, a := range strings.Split(k2, ",") {
					if a != "" {
						obs[a]++
					}
				}
			}
			var missing, extra []string
			for _, a := range w0 {
				if obs[a] == 0 {
					missing = append(missing, a)
				}
			}
			for a := range obs {
				ok := a == masterOK // the master of the owning set may serve reads too
				for _, x := range w0 {
					if x == a {
						ok = true
					}
				}
				if !ok {
					extra = append(extra, a)
				}
			}
			sort.Strings(extra)
			if len(missing) > 0 || len(extra) > 0 {
				return []world.Violation{{Sig: "healthy-replica-unreachable", Msg: fmt.Sprintf("after %s, reads of a %s are served by %v over all random outcomes; expected exactly %v (never selected: %v, wrongly selected: %v)", what, target, obs, w0, missing, extra)}}
			}
			return nil
		}
		out = append(out, sc)
	}
	return out
}

func init() {
	register(&Check{ID: "C03", Level: "model_checking",
		Rule:      "2-3 clients with token-carrying requests on a topology with an unowned range; fault families: multi-key request with one unroutable key (unowned slot / refused dial) in both routing orders, client FIN/RST with requests in flight while another client is accepted (descriptor numbers are reused lowest-first), request timeout with a late backend reply, backend connection loss + redial, backend connections opened with an AUTH / READONLY handshake whose replies arrive under every segmentation with <= 2 cuts; request objects are recycled LIFO; every interleaving within the bound; oracle (safety only): each delivered reply is the reference reply of that connection's request at that position or a proxy-generated error; non-trivial = >= 1 non-default choice; distinct = observable outcomes",
		Scenarios: c03Scenarios, BudgetQuick: 100, BudgetThorough: 1500,
		Assumptions: []string{"replies embed the request key, so a foreign reply is always distinguishable", "LIFO recycling is the most adversarial legal sync.Pool behaviour"}})
	register(&Check{ID: "C15", Level: "fault_enumeration",
		Rule:      "pipelines of 1-2 requests (single, split over two nodes, two fragments on one node) from 1-2 clients x fault kinds {backend FIN, backend RST} x fault points {before the request is written (fragment still queued), after it is written, between two chunks of the reply} placed at EVERY scheduling position within the bound; redirect to an unknown / unreachable node; dial refused on first use; node removed by a topology update while in flight; then two clock ticks and a follow-up request to the same node; oracle at the end: every request of a still-open client has some reply (any error counts) and the follow-up is served over a new connection; non-trivial = >= 1 non-default choice; distinct = observable outcomes",
		Scenarios: c15Scenarios, BudgetQuick: 100, BudgetThorough: 1500,
		Assumptions: []string{"'forever' = until no event is left and two further clock ticks have been granted"}})
	register(&Check{ID: "C16", Level: "fault_enumeration",
		Rule:      "timeout 100 ms; pipelines {A; A,B; B,A; A,B,A; MGET A+B; MGET,A; A,DEL A+B} x EVERY non-empty subset of fragments whose node stalls (forever, or answering after the deadline) x placement of the clock tick and of a wake-up request at every position within the bound; oracle: each stalled request is answered by exactly one timeout error in its pipeline position, the others by their real replies, late replies produce no bytes, the follow-up request is answered; non-trivial = >= 1 non-default choice; distinct = observable outcomes; plus: a GET / split MGET times out, its request object is recycled, the late reply arrives before or while the NEXT request (GET, or MGET/DEL/MSET split over two other nodes answering at different times) uses that object: it and the request after it are answered completely and correctly; plus: after the timeout the stalled node's connection is lost (FIN/RST) while the next request, which reuses the recycled object, is in flight to a healthy node whose reply comes afterwards",
		Scenarios: c16Scenarios, BudgetQuick: 100, BudgetThorough: 1500,
		Assumptions: []string{"a node that stalls on one command does not answer later commands on the same connection either (Redis executes sequentially)", "virtual clock; msgTimeout only runs after an event, so a wake-up request follows the tick"}})
	register(&Check{ID: "C20", Level: "model_checking",
		Rule:      "topologies with 2 and 3 replicas of master A; every subset of replicas banned by the health monitor leaving >= 2 healthy; a closed-loop run of GET / MGET-fragment reads (and SET / HSCAN, master-only) routed under EVERY outcome of every random choice (choice enumeration, not sampling); oracle: per execution the node belongs to the owning set and is healthy (master for writes); across all outcomes (and all reads of a short run) every healthy replica serves some read; after a replica is re-parented by a topology update it serves its new master's slots and not the old one's; distinct = observable outcomes; nodes behave like cluster nodes (a replica serves a read only on a READONLY connection, else -MOVED to its master; a read counts as served by the node that answered it with data), with and without a configured password; ban-recovery family with the REAL health-monitor goroutines running as cooperative threads (virtual 5 s ticker and sleep, probe outcome decided by the world): a replica is down while a read's dial to it fails, comes back, and after the ban window and one monitor round a run of reads under every random outcome must reach every healthy replica again (judged per group of executions: dial failure seen / not seen)",
		Scenarios: c20Scenarios, BudgetQuick: 60, BudgetThorough: 600,
		Assumptions: []string{"health monitor threads are sequentialised with the event loop (each runs from one blocking point to the next while the loop waits); data races between them are outside the technique", "possibilistic core of the statistical claim: under a fair generator every selectable replica serves some reads in a long run iff it is selected by at least one outcome", "healthy = not flagged by the health monitor; ban-lifting semantics are not part of the oracle"}})
}
