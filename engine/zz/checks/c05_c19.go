package checks

import (
	"bytes"
	"encoding/hex"
	"fmt"
	"io"
	"strings"
	"time"

	"rcproxy/core/pkg/buffer/elastic"
	"rcproxy/core/pkg/buffer/linkedlist"
	"rcproxy/core/pkg/buffer/ring"
	"rcproxy/core/pkg/hashkit"
	"rcproxy/core/vsys"
	"rcproxy/core/zz_verif/explore"
	"rcproxy/core/zz_verif/world"
)

func addFound(res *Result, fam, sig, msg, input string) {
	for _, f := range res.Found {
		if f.Sig == sig && f.Family == fam {
			return
		}
	}
	res.Found = append(res.Found, &explore.Found{Scenario: input, Family: fam, Sig: sig, Msg: msg})
}

// ---------------------------------------------------------------------------------------------
// C05: key-to-slot mapping equals the Redis Cluster key-slot function.

func c05Judge(key []byte) (sig, msg string) {
	got := int(hashkit.Hash(string(key)))
	want := world.SpecSlot(key)
	if got == want {
		return "", ""
	}
	s := bytes.IndexByte(key, '{')
	e := bytes.IndexByte(key, '}')
	sig = "crc-mismatch"
	if s >= 0 {
		sig = "tag-rule-other"
		if e >= 0 && e < s {
			sig = "closing-brace-before-opening"
		}
	}
	return sig, fmt.Sprintf("key %q (hex %s): proxy slot %d, Redis Cluster specification slot %d", key, hex.EncodeToString(key), got, want)
}

func c05Seq(tier string, shard, n int, deadline time.Time, res *Result) {
	maxA, maxB := 8, 5
	if tier == "thorough" {
		maxA, maxB = 10, 7
	}
	idx := 0
	nontriv := map[int]struct{}{}
	eval := func(key []byte) {
		idx++
		if idx%n != shard {
			return
		}
		res.Execs++
		if bytes.IndexByte(key, '{') >= 0 || bytes.IndexByte(key, '}') >= 0 {
			nontriv[world.SpecSlot(key)] = struct{}{}
		}
		if sig, msg := c05Judge(key); sig != "" {
			addFound(res, "keys", sig, msg, hex.EncodeToString(key))
		}
		if len(res.Samples) < 3 && idx%977 == 0 {
			res.Samples = append(res.Samples, fmt.Sprintf("key %q -> slot %d", key, world.SpecSlot(key)))
		}
	}
	var gen func(alpha []byte, cur []byte, max int)
	gen = func(alpha []byte, cur []byte, max int) {
		eval(cur)
		if len(cur) == max {
			return
		}
		for _, c := range alpha {
			gen(alpha, append(cur, c), max)
		}
	}
	gen([]byte("{}ab"), nil, maxA)
	gen([]byte{'{', '}', 0x00, 0xff}, nil, maxB)
	gen([]byte{'{', '}', '\r', '\n', 'k'}, nil, maxB)
	for a := 0; a < 256; a++ {
		eval([]byte{byte(a)})
		for b := 0; b < 256; b++ {
			eval([]byte{byte(a), byte(b)})
		}
	}
	// three-byte keys exercise the shift/xor recurrence over two table steps for every table entry
	if tier == "thorough" {
		for a := 0; a < 256; a++ {
			for b := 0; b < 256; b++ {
				for _, c := range []byte{0, 1, 0x7f, 0x80, 0xff, '{', '}'} {
					eval([]byte{byte(a), byte(b), c})
				}
			}
		}
	}
	eval([]byte("123456789"))
	initSlotKeys()
	for s := 0; s < 16384; s++ {
		eval([]byte(slotKeys[s]))
		eval([]byte("x{" + slotKeys[s] + "}y"))
		eval([]byte("}" + slotKeys[s] + "{" + slotKeys[(s+1)%16384] + "}"))
	}
	long := bytes.Repeat([]byte("ab{"), 700)
	eval(long)
	eval(append(long, '}'))
	res.States, res.Transitions = res.Execs, res.Execs
	res.Scenarios = int(res.Execs)
	for k := range nontriv {
		res.Nontrivial = append(res.Nontrivial, uint64(k))
		res.Outcomes = append(res.Outcomes, uint64(k))
	}
	if want := 0x31C3 % 16384; world.SpecSlot([]byte("123456789")) != want {
		res.HarnessErr = "reference CRC16 does not reproduce the specification's test vector"
	}
}

// c05Scenarios: the slot the running proxy ASSIGNS to each key of a multi-key request (it groups keys by slot and
// routes each group): every key of every ordered pair / triple over a pool of awkward keys must arrive at the node
// that owns its specification slot.
func c05Scenarios(tier string) []*world.Scenario {
	pool := []string{"", "{", "}", "{}", "{}a", "a{}", "}a{b}", "{a}b", "a{b", keysA[0], keysB[0], keysC[0], "\xff\x80k", "{{a}}"}
	var lists [][]string
	for _, x := range pool {
		for _, y := range pool {
			lists = append(lists, []string{x, y})
			if tier == "thorough" {
				for _, z := range pool {
					lists = append(lists, []string{x, y, z})
				}
			}
		}
	}
	for _, x := range pool[:8] {
		for _, y := range pool[:8] {
			for _, z := range pool[:8] {
				lists = append(lists, []string{x, y, z})
			}
		}
	}
	var out []*world.Scenario
	const batch = 60
	for _, kind := range []string{"mget", "del", "mset"} {
		for i := 0; i < len(lists); i += batch {
			j := i + batch
			if j > len(lists) {
				j = len(lists)
			}
			part := lists[i:j]
			sc := &world.Scenario{Nodes: T3m(), Bound: 0, Family: "assigned-slot", Horizon: 1 << 20, InputEnum: true}
			cs := world.ClientSpec{}
			for n, l := range part {
				args := []string{kind}
				for _, k := range l {
					args = append(args, k)
					if kind == "mset" {
						args = append(args, "v")
					}
				}
				raw := world.Cmd(args...)
				cs.Chunks = append(cs.Chunks, world.Chunk{Data: raw, WaitReplies: n})
				cs.Reqs = append(cs.Reqs, raw)
				cs.Expect = append(cs.Expect, nil)
			}
			sc.Clients = []world.ClientSpec{cs}
			sc.Name = fmt.Sprintf("C05/e1/%s/batch%d(%q ..)", kind, i/batch, part[0])
			sc.Check = func(w *world.World) []world.Violation {
				for _, rec := range w.DataCmds("") {
					for ai, k := range rec.Args[1:] {
						if world.Lower(rec.Args[0]) == "mset" && ai%2 == 1 {
							continue // a value
						}
						m := w.Sc.MasterOf(world.SpecSlot(k))
						if m == nil || m.Addr != rec.Addr {
							want := "<none>"
							if m != nil {
								want = m.Addr
							}
							return []world.Violation{{Sig: "assigned-slot-differs", Msg: fmt.Sprintf("key %q (specification slot %d, owner %s) was sent to %s inside %q", k, world.SpecSlot(k), want, rec.Addr, rec.Raw)}}
						}
					}
				}
				return CheckStreams(w, StreamOpts{})
			}
			out = append(out, sc)
		}
	}
	// the slot the running proxy assigns to the key of SINGLE-key requests and scripts (other decoding branches than the
	// multi-key commands): every one-byte key, keys with control bytes / CR / LF / NUL / high bytes inside and inside the
	// tag, keys that only differ in such a byte; the request must arrive, unchanged, at the owner of the specification slot
	var singles []string
	for b := 0; b < 256; b++ {
		singles = append(singles, string([]byte{byte(b)}))
	}
	for _, c := range []string{"\r", "\n", "\r\n", "\x00", "\t", " ", ".", "\"", "\\", "\x7f", "\x80", "\xff", "%", "*", "$"} {
		singles = append(singles, "a"+c+"b", c+"ab", "ab"+c, "{a"+c+"}x", "x{"+c+"}", "{u}"+c, c+"{u}", "a"+c+"b"+c+"c")
	}
	singles = append(singles, pool...)
	type sk struct {
		kind string
		mk   func(k string) []byte
		pos  int
	}
	kinds := []sk{
		{"get", func(k string) []byte { return world.Cmd("get", k) }, 1},
		{"set", func(k string) []byte { return world.Cmd("SET", k, "v") }, 1},
		{"eval", func(k string) []byte { return world.Cmd("eval", "return 1", "1", k) }, 3},
		{"evalsha", func(k string) []byte {
			return world.Cmd("EVALSHA", "e0e1f9fabfc9d4800c877a703b823ac0578ff8db", "1", k, "x")
		}, 3},
	}
	if tier == "thorough" {
		kinds = append(kinds,
			sk{"hset", func(k string) []byte { return world.Cmd("hset", k, "f", "v") }, 1},
			sk{"expire", func(k string) []byte { return world.Cmd("expire", k, "10") }, 1})
	}
	for _, kd := range kinds {
		for i := 0; i < len(singles); i += batch {
			j := i + batch
			if j > len(singles) {
				j = len(singles)
			}
			part := singles[i:j]
			sc := &world.Scenario{Nodes: T3m(), Bound: 0, Family: "assigned-slot-single", Horizon: 1 << 20, InputEnum: true}
			cs := world.ClientSpec{}
			var raws [][]byte
			for n, k := range part {
				raw := kd.mk(k)
				raws = append(raws, raw)
				cs.Chunks = append(cs.Chunks, world.Chunk{Data: raw, WaitReplies: n})
				cs.Reqs = append(cs.Reqs, raw)
				cs.Expect = append(cs.Expect, nil)
			}
			sc.Clients = []world.ClientSpec{cs}
			sc.Name = fmt.Sprintf("C05/e1/%s/batch%d(%q ..)", kd.kind, i/batch, part[0])
			pos := kd.pos
			sc.Check = func(w *world.World) []world.Violation {
				data := w.DataCmds("")
				for n, rec := range data {
					if n >= len(part) || pos >= len(rec.Args) {
						break
					}
					k := []byte(part[n])
					m := w.Sc.MasterOf(world.SpecSlot(k))
					if !bytes.Equal(lowerName(append([]byte{}, rec.Raw...)), lowerName(append([]byte{}, raws[n]...))) {
						return []world.Violation{{Sig: "assigned-slot-differs", Msg: fmt.Sprintf("request %q reached a node as %q", raws[n], rec.Raw)}}
					}
					if m == nil || m.Addr != rec.Addr {
						return []world.Violation{{Sig: "assigned-slot-differs", Msg: fmt.Sprintf("key %q (specification slot %d, owner %s) was sent to %s inside %q", k, world.SpecSlot(k), m.Addr, rec.Addr, rec.Raw)}}
					}
				}
				if len(data) != len(part) {
					return []world.Violation{{Sig: "assigned-slot-differs", Msg: fmt.Sprintf("%d single-key requests sent, %d reached a node", len(part), len(data))}}
				}
				return CheckStreams(w, StreamOpts{})
			}
			out = append(out, sc)
		}
	}
	return out
}

// ---------------------------------------------------------------------------------------------
// C19: I/O buffers behave as exact FIFO byte queues.

type fifo interface {
	name() string
	write(p []byte)
	writev(bs [][]byte) bool
	read(n int) []byte
	peek(n int) []byte
	discard(n int) int
	reset()
	buffered() int
	isEmpty() bool
	bytes() ([]byte, bool)
	writeByte(c byte) bool
	readByte() (byte, bool, bool)
	readFrom(p []byte) bool
	writeTo(limit int) ([]byte, bool)
}

type chunkReader struct {
	data []byte
	step int
}

func (r *chunkReader) Read(p []byte) (int, error) {
	if len(r.data) == 0 {
		return 0, io.EOF
	}
	n := r.step
	if n > len(r.data) {
		n = len(r.data)
	}
	if n > len(p) {
		n = len(p)
	}
	copy(p, r.data[:n])
	r.data = r.data[n:]
	return n, nil
}

type limitWriter struct {
	got   []byte
	limit int
}

func (w *limitWriter) Write(p []byte) (int, error) {
	n := len(p)
	if n > w.limit {
		n = w.limit
	}
	w.got = append(w.got, p[:n]...)
	w.limit -= n
	return n, nil // a short count without an error, like a non-blocking socket
}

func join2(a, b []byte) []byte { return append(append([]byte{}, a...), b...) }
func joinN(bs [][]byte) []byte {
	var o []byte
	for _, b := range bs {
		o = append(o, b...)
	}
	return o
}

type ringQ struct{ b *ring.Buffer }

func (q ringQ) name() string            { return "ring" }
func (q ringQ) write(p []byte)          { q.b.Write(p) }
func (q ringQ) writev(bs [][]byte) bool { return false }
func (q ringQ) read(n int) []byte       { p := make([]byte, n); m, _ := q.b.Read(p); return p[:m] }
func (q ringQ) peek(n int) []byte       { h, t := q.b.Peek(n); return join2(h, t) }
func (q ringQ) discard(n int) int       { d, _ := q.b.Discard(n); return d }
func (q ringQ) reset()                  { q.b.Reset() }
func (q ringQ) buffered() int           { return q.b.Buffered() }
func (q ringQ) isEmpty() bool           { return q.b.IsEmpty() }
func (q ringQ) bytes() ([]byte, bool)   { return q.b.Bytes(), true }
func (q ringQ) writeByte(c byte) bool   { q.b.WriteByte(c); return true }
func (q ringQ) readByte() (byte, bool, bool) {
	c, err := q.b.ReadByte()
	return c, err == nil, true
}
func (q ringQ) readFrom(p []byte) bool {
	q.b.ReadFrom(&chunkReader{append([]byte{}, p...), 1 << 30})
	return true
}
func (q ringQ) writeTo(limit int) ([]byte, bool) {
	w := &limitWriter{limit: limit}
	q.b.WriteTo(w)
	return w.got, true
}

type eringQ struct{ b *elastic.RingBuffer }

func (q eringQ) name() string            { return "elastic-ring" }
func (q eringQ) write(p []byte)          { q.b.Write(p) }
func (q eringQ) writev(bs [][]byte) bool { return false }
func (q eringQ) read(n int) []byte       { p := make([]byte, n); m, _ := q.b.Read(p); return p[:m] }
func (q eringQ) peek(n int) []byte       { h, t := q.b.Peek(n); return join2(h, t) }
func (q eringQ) discard(n int) int       { d, _ := q.b.Discard(n); return d }
func (q eringQ) reset()                  { q.b.Reset() }
func (q eringQ) buffered() int           { return q.b.Buffered() }
func (q eringQ) isEmpty() bool           { return q.b.IsEmpty() }
func (q eringQ) bytes() ([]byte, bool)   { return q.b.Bytes(), true }
func (q eringQ) writeByte(c byte) bool   { q.b.WriteByte(c); return true }
func (q eringQ) readByte() (byte, bool, bool) {
	c, err := q.b.ReadByte()
	return c, err == nil, true
}
func (q eringQ) readFrom(p []byte) bool {
	q.b.ReadFrom(&chunkReader{append([]byte{}, p...), 1 << 30})
	return true
}
func (q eringQ) writeTo(limit int) ([]byte, bool) {
	w := &limitWriter{limit: limit}
	q.b.WriteTo(w)
	return w.got, true
}

type llQ struct{ b *linkedlist.Buffer }

func (q llQ) name() string   { return "linkedlist" }
func (q llQ) write(p []byte) { q.b.PushBack(p) }
func (q llQ) writev(bs [][]byte) bool {
	for _, b := range bs {
		q.b.PushBack(b)
	}
	return true
}
func (q llQ) read(n int) []byte            { p := make([]byte, n); m, _ := q.b.Read(p); return p[:m] }
func (q llQ) peek(n int) []byte            { o := joinN(q.b.Peek(n)); return o }
func (q llQ) discard(n int) int            { d, _ := q.b.Discard(n); return d }
func (q llQ) reset()                       { q.b.Reset() }
func (q llQ) buffered() int                { return q.b.Buffered() }
func (q llQ) isEmpty() bool                { return q.b.IsEmpty() }
func (q llQ) bytes() ([]byte, bool)        { return nil, false }
func (q llQ) writeByte(c byte) bool        { return false }
func (q llQ) readByte() (byte, bool, bool) { return 0, false, false }
func (q llQ) readFrom(p []byte) bool {
	q.b.ReadFrom(&chunkReader{append([]byte{}, p...), 1 << 30})
	return true
}
func (q llQ) writeTo(limit int) ([]byte, bool) {
	w := &limitWriter{limit: limit}
	q.b.WriteTo(w)
	return w.got, true
}

type elQ struct{ b *elastic.Buffer }

func (q elQ) name() string   { return "elastic" }
func (q elQ) write(p []byte) { q.b.Write(p) }
func (q elQ) writev(bs [][]byte) bool {
	cp := make([][]byte, len(bs))
	copy(cp, bs)
	q.b.Writev(cp)
	return true
}
func (q elQ) read(n int) []byte            { p := make([]byte, n); m, _ := q.b.Read(p); return p[:m] }
func (q elQ) peek(n int) []byte            { return joinN(q.b.Peek(n)) }
func (q elQ) discard(n int) int            { d, _ := q.b.Discard(n); return d }
func (q elQ) reset()                       { q.b.Reset(0) }
func (q elQ) buffered() int                { return q.b.Buffered() }
func (q elQ) isEmpty() bool                { return q.b.IsEmpty() }
func (q elQ) bytes() ([]byte, bool)        { return nil, false }
func (q elQ) writeByte(c byte) bool        { return false }
func (q elQ) readByte() (byte, bool, bool) { return 0, false, false }
func (q elQ) readFrom(p []byte) bool {
	q.b.ReadFrom(&chunkReader{append([]byte{}, p...), 1 << 30})
	return true
}
func (q elQ) writeTo(limit int) ([]byte, bool) {
	w := &limitWriter{limit: limit}
	q.b.WriteTo(w)
	return w.got, true
}

type bufCfg struct {
	name string
	mk   func() fifo
	cap  int
}

func bufConfigs(tier string) []bufCfg {
	cfgs := []bufCfg{
		{"ring/0", func() fifo { return ringQ{ring.New(0)} }, 4},
		{"ring/4", func() fifo { return ringQ{ring.New(4)} }, 4},
		{"ring/8", func() fifo { return ringQ{ring.New(8)} }, 8},
		{"linkedlist", func() fifo { return llQ{&linkedlist.Buffer{}} }, 4},
		{"elastic-ring", func() fifo { return eringQ{&elastic.RingBuffer{}} }, 4},
		{"elastic/8", func() fifo { b, _ := elastic.New(8); return elQ{b} }, 8},
		{"elastic/1024", func() fifo { b, _ := elastic.New(1024); return elQ{b} }, 1024},
		{"ring/4096", func() fifo { return ringQ{ring.New(4096)} }, 4096},
	}
	if tier == "thorough" {
		cfgs = append(cfgs,
			bufCfg{"ring/1024", func() fifo { return ringQ{ring.New(1024)} }, 1024},
			bufCfg{"elastic/4", func() fifo { b, _ := elastic.New(4); return elQ{b} }, 4},
			bufCfg{"elastic/4096", func() fifo { b, _ := elastic.New(4096); return elQ{b} }, 4096},
		)
	}
	return cfgs
}

type bufOp struct {
	kind string
	k    int
	k2   int
}

func (o bufOp) String() string {
	if o.kind == "writev" {
		return fmt.Sprintf("writev(%d,%d)", o.k, o.k2)
	}
	return fmt.Sprintf("%s(%d)", o.kind, o.k)
}

func bufOps(c int) []bufOp {
	sizes := []int{1, 3, c - 1, c, c + 1, 2*c + 1}
	var ops []bufOp
	seen := map[int]bool{}
	for _, k := range sizes {
		if k <= 0 || seen[k] {
			continue
		}
		seen[k] = true
		ops = append(ops, bufOp{"write", k, 0}, bufOp{"read", k, 0}, bufOp{"peek", k, 0}, bufOp{"discard", k, 0})
	}
	ops = append(ops, bufOp{"writev", 1, c}, bufOp{"writev", c + 1, 3}, bufOp{"writev", 3, 2*c + 1},
		bufOp{"reset", 0, 0}, bufOp{"writebyte", 0, 0}, bufOp{"readbyte", 0, 0}, bufOp{"bytes", 0, 0},
		bufOp{"peek", 0, 0}, bufOp{"readfrom", c + 2, 0}, bufOp{"writeto", 3, 0}, bufOp{"writeto", 1 << 30, 0})
	return ops
}

// runBufSeq applies ops to a fresh structure and to a []byte queue; returns the first disagreement.
func runBufSeq(cfg bufCfg, ops []bufOp) (sig, msg string) {
	defer func() {
		if r := recover(); r != nil {
			last := "?"
			if len(ops) > 0 {
				last = ops[len(ops)-1].kind
			}
			sig, msg = strings.SplitN(cfg.name, "/", 2)[0]+":"+last+":panic", fmt.Sprintf("%s: ops %v panicked: %v", cfg.name, ops, r)
		}
	}()
	vsys.LoopReset()
	q := cfg.mk()
	var ref []byte
	ctr := byte(0)
	next := func(n int) []byte {
		p := make([]byte, n)
		for i := range p {
			ctr++
			p[i] = ctr
		}
		return p
	}
	for i, op := range ops {
		bad := func(what string, got, want interface{}) (string, string) {
			return fmt.Sprintf("%s:%s:%s", strings.SplitN(cfg.name, "/", 2)[0], op.kind, what),
				fmt.Sprintf("%s: after ops %v, op #%d %v: %s = %v, ideal FIFO queue gives %v", cfg.name, ops[:i], i, op, what, got, want)
		}
		switch op.kind {
		case "write":
			p := next(op.k)
			q.write(append([]byte{}, p...))
			ref = append(ref, p...)
		case "writev":
			a, b := next(op.k), next(op.k2)
			if !q.writev([][]byte{append([]byte{}, a...), append([]byte{}, b...)}) {
				q.write(a)
				q.write(b)
			}
			ref = append(ref, a...)
			ref = append(ref, b...)
		case "read":
			got := q.read(op.k)
			n := op.k
			if n > len(ref) {
				n = len(ref)
			}
			if !bytes.Equal(got, ref[:n]) {
				return bad("content", got, ref[:n])
			}
			ref = ref[n:]
		case "peek":
			got := q.peek(op.k)
			n := op.k
			if n <= 0 || n > len(ref) {
				n = len(ref)
			}
			// a peek may return more than asked (whole nodes); the first n bytes must be exact
			if len(got) < n || !bytes.Equal(got[:n], ref[:n]) {
				return bad("content", got, ref[:n])
			}
			if !bytes.Equal(got, ref[:len(got)]) {
				return bad("content", got, ref[:len(got)])
			}
		case "discard":
			got := q.discard(op.k)
			n := op.k
			if n > len(ref) {
				n = len(ref)
			}
			if got != n {
				return bad("length", got, n)
			}
			ref = ref[n:]
		case "reset":
			q.reset()
			ref = nil
		case "writebyte":
			p := next(1)
			if q.writeByte(p[0]) {
				ref = append(ref, p[0])
			} else {
				q.write(p)
				ref = append(ref, p[0])
			}
		case "readbyte":
			c, ok, sup := q.readByte()
			if !sup {
				continue
			}
			if len(ref) == 0 {
				if ok {
					return bad("content", c, "empty")
				}
			} else {
				if !ok || c != ref[0] {
					return bad("content", c, ref[0])
				}
				ref = ref[1:]
			}
		case "bytes":
			if got, sup := q.bytes(); sup && !bytes.Equal(got, ref) {
				return bad("content", got, ref)
			}
		case "readfrom":
			p := next(op.k)
			q.readFrom(p)
			ref = append(ref, p...)
		case "writeto":
			got, _ := q.writeTo(op.k)
			n := op.k
			if n > len(ref) {
				n = len(ref)
			}
			if !bytes.Equal(got, ref[:n]) {
				return bad("content", got, ref[:n])
			}
			ref = ref[n:]
		}
		if q.buffered() != len(ref) {
			return bad("length", q.buffered(), len(ref))
		}
		if q.isEmpty() != (len(ref) == 0) {
			return bad("length", fmt.Sprint("isEmpty=", q.isEmpty()), fmt.Sprint("isEmpty=", len(ref) == 0))
		}
	}
	// final drain: everything written and not yet consumed comes out, in order
	got := q.read(len(ref) + 7)
	if !bytes.Equal(got, ref) {
		return fmt.Sprintf("%s:drain:content", strings.SplitN(cfg.name, "/", 2)[0]), fmt.Sprintf("%s: after ops %v the remaining content is %v, ideal FIFO queue holds %v", cfg.name, ops, got, ref)
	}
	return "", ""
}

func c19Seq(tier string, shard, n int, deadline time.Time, res *Result) {
	depth := 4
	if tier == "thorough" {
		depth = 5
	}
	idx := 0
	nontrivSeqs := int64(0)
	distinct := map[string]struct{}{}
	for _, cfg := range bufConfigs(tier) {
		ops := bufOps(cfg.cap)
		d := depth
		if cfg.cap >= 1024 {
			d = depth - 1 // kilobyte-sized operations: one level less (every defect seen so far needs <= 3 operations there)
		}
		seq := make([]bufOp, 0, d)
		var rec func()
		capped := false
		rec = func() {
			if len(seq) > 0 {
				idx++
				if idx%n == shard {
					if res.Execs%2048 == 0 && time.Now().After(deadline) {
						capped = true
					}
					res.Execs++
					res.Transitions += int64(len(seq))
					if len(seq) >= 2 {
						nontrivSeqs++ // sequences are enumerated without repetition, so each is distinct
					}
					if sig, msg := runBufSeq(cfg, seq); sig != "" {
						addFound(res, "buffers", sig, msg, cfg.name+"|"+fmt.Sprint(seq))
					}
					if len(res.Samples) < 3 && idx%7919 == 0 {
						res.Samples = append(res.Samples, fmt.Sprintf("%s: %v", cfg.name, seq))
					}
				}
			}
			if len(seq) == d || capped {
				return
			}
			for _, op := range ops {
				seq = append(seq, op)
				rec()
				seq = seq[:len(seq)-1]
			}
		}
		rec()
		if capped {
			res.Exhaustive = false
			res.Capped = append(res.Capped, cfg.name)
		}
		distinct[cfg.name] = struct{}{}
	}
	res.States = res.Execs
	res.Scenarios = len(distinct)
	// non-trivial: sequences of length >= 2 (the vast majority); counted exactly
	res.Extra = map[string]interface{}{"distinct_nontrivial_override": float64(nontrivSeqs)}
}

// c19Scenarios: the same buffers inside the running proxy: replies to a slow reader (conn.write / conn.writev partial-write
// bookkeeping, eventloop.write draining ring + list) under every write answer within the bound.
func c19Scenarios(tier string) []*world.Scenario {
	b := 2
	if tier == "thorough" {
		b = 3
	}
	var out []*world.Scenario
	for _, sz := range [][3]int{{1, 30, 30}, {40, 3, 20}, {3, 3, 90}, {70, 70, 70}} {
		out = append(out, SlowMultiFlush("C19", sz, b))
	}
	for _, n := range []int{10, 100, 700} {
		rep := world.Bulk(strings.Repeat("0123456789", n/10))
		out = append(out, c02Seg("get", world.Cmd("get", keysA[0]), rep, nil, nil, true, b))
		out[len(out)-1].Name = fmt.Sprintf("C19/slow-reader/reply%d/d%d", len(rep), b)
		out[len(out)-1].Family = "slow-reader"
	}
	// many medium replies to a slow reader: the outbound ring grows step by step while wrapped; fragments to a slow node
	// beyond the 64 KiB static part
	out = append(out, SlowClientManyReplies("C19", 14, 1000, b), SlowClientManyReplies("C19", 8, 2500, b), SlowClientOverflow("C19", 40000, b))
	{
		sc := SlowBackendOverflow("C19", 5, 40000, b)
		inner := sc.Check
		sc.Check = func(w *world.World) []world.Violation {
			vs := inner(w)
			for i := range vs {
				vs[i].Sig = "slow-reader-stream-corrupt"
			}
			return vs
		}
		out = append(out, sc)
	}
	// the write path of LOCAL replies (conn.write, not the vectored one): eight pipelined requests answered by the proxy
	// itself to a slow reader, every write answer within the bound
	{
		var reqs []Req
		for j := 0; j < 8; j++ {
			if j%3 == 1 {
				reqs = append(reqs, UnknownReq())
			} else {
				reqs = append(reqs, PingReq())
			}
		}
		cs := ClientOf(reqs, true)
		cs.Slow = true
		sc := &world.Scenario{Nodes: T3m(), Bound: b, Horizon: 400, Family: "slow-reader-local-replies", WriteOracle: true, Clients: []world.ClientSpec{cs}}
		sc.Name = fmt.Sprintf("C19/slow-reader-local-replies/d%d", b)
		sc.Check = func(w *world.World) []world.Violation {
			vs := CheckStreams(w, StreamOpts{})
			for i := range vs {
				vs[i].Sig = "slow-reader-stream-corrupt"
			}
			return vs
		}
		out = append(out, sc)
	}
	// buffers released by a connection that died inside a message are reset before the next connection uses them
	for _, kind := range []string{"backend-close", "backend-rst"} {
		for _, cut := range []int{1, 3, 7} {
			sc := BackendLossMidReply(kind, cut, b)
			sc.Name = fmt.Sprintf("C19/backend-loss-mid-reply/%s/cut%d/d%d", kind, cut, b)
			sc.Family = "released-buffers"
			sc.Check = func(w *world.World) []world.Violation {
				c := w.Clients[0]
				rs, rest, malformed := world.SplitReplies(c.Received)
				if malformed || len(rest) > 0 || len(rs) > 2 {
					return []world.Violation{{Sig: "slow-reader-stream-corrupt", Msg: fmt.Sprintf("client stream %q", c.Received)}}
				}
				for j, r := range rs {
					if !bytes.Equal(r, c.Spec.Expect[j]) && !world.IsError(r) {
						return []world.Violation{{Sig: "slow-reader-stream-corrupt", Msg: fmt.Sprintf("request %d (%q) was answered %q; the node sent %q", j, c.Spec.Reqs[j], r, c.Spec.Expect[j])}}
					}
				}
				if len(rs) < 2 && !c.ProxyClosed {
					return []world.Violation{{Sig: "slow-reader-stream-corrupt", Msg: fmt.Sprintf("after a node died inside a reply, the next reply (over a new connection, in two reads) never completes: client has %q", c.Received)}}
				}
				return nil
			}
			out = append(out, sc)
		}
	}
	{
		ab := world.Cmd("set", keysA[0], strings.Repeat("A", 34))
		victim := []Req{GetReq(keysB[2]), SetReq(keysC[2], "hello")}
		for _, plen := range []int{9, len(ab) - 1} {
			for _, cut := range []int{4, 13, 30} {
				sc := AbortedNeighbour(ab[:plen], false, victim, []int{cut}, 32)
				sc.Name = fmt.Sprintf("C19/aborted-neighbour/prefix%d/cut%d", plen, cut)
				sc.Family = "released-buffers"
				sc.Check = func(w *world.World) []world.Violation {
					vs := CheckStreams(w, StreamOpts{})
					for i := range vs {
						vs[i].Sig = "slow-reader-stream-corrupt"
					}
					return append(vs, BackendsWellFormed(w)...)
				}
				out = append(out, sc)
			}
		}
	}
	// production sizes (64 KiB ring part, overflow list behind it): replies of 64 KiB and more to a slow reader
	for _, sz := range [][]int{{100, 70000, 70000}, {70000, 66000, 100}, {140000, 10, 65536}} {
		sc := BigSlowRecycle("C19", sz, 60000, b)
		inner := sc.Check
		sc.Check = func(w *world.World) []world.Violation {
			vs := inner(w)
			for i := range vs {
				if vs[i].Sig == "corrupt" || vs[i].Sig == "forwarded-swap" {
					vs[i].Sig = "slow-reader-stream-corrupt"
				}
			}
			return vs
		}
		out = append(out, sc)
	}
	// round 10: a request cut inside its array-header line or first bulk-header line, also at a read-buffer boundary
	for _, rq := range []Req{GetReq(keysA[0]), MGetReq(keysA[0], keysB[0]), SetReq(keysB[1], "value")} {
		for cut := 1; cut <= 7; cut++ {
			out = append(out, HeaderCut("C19", rq, cut, 0, 1))
		}
	}
	out = append(out, HugeIncomplete("C19", 33<<20+4096, 0))
	return out
}

func init() {
	register(&Check{ID: "C05", Level: "model_checking",
		Rule: "bounded-exhaustive input enumeration: every string over {'{','}',a,b} up to length 8 (thorough 10), every string over {'{','}',00,ff} and over {'{','}',CR,LF,k} up to length 5 (thorough 7), all 256 one-byte and all 65536 two-byte strings (thorough: + 458752 three-byte strings), one brace-free, one tagged and one '}'-before-'{' key for each of the 16384 slots, the specification vector '123456789'; plus, through the running proxy, every ordered pair (thorough: triple) of a 14-key pool of awkward keys (empty, lone braces, empty tag, '}' before '{', nested braces, binary) as MGET and DEL, each key having to arrive at the node that owns its specification slot; oracle: bitwise CRC16/XMODEM (no table) over the specification's hash-tag rule, mod 16384; states = inputs, transitions = evaluations of hashkit.Hash; non-trivial = inputs containing a brace, distinct = distinct specification slots they hit",
		Seq:  c05Seq, Scenarios: c05Scenarios, BudgetQuick: 60, BudgetThorough: 600,
		Assumptions: []string{"the slot function depends only on brace positions and a length-uniform CRC recurrence over a 256-entry table; both are covered exhaustively"}})
	register(&Check{ID: "C19", Level: "model_checking",
		Rule: "every operation sequence up to length 4 (thorough 5; one less for the 1 KiB / 4 KiB configurations) over {Write k, Writev(k1,k2), Read k, Peek k / all, Discard k, Reset, WriteByte, ReadByte, Bytes, ReadFrom k, WriteTo(limit k / unlimited)} with k in {1,3,cap-1,cap,cap+1,2cap+1} on ring.Buffer (initial capacity 0, 4, 8, 4096; thorough also 1024), linkedlist.Buffer, elastic.RingBuffer and elastic.Buffer (static limit 8, 1024; thorough also 4, 4096); payload bytes are a running counter; oracle: a []byte queue, compared after every operation (returned/peeked bytes, discarded counts, Buffered, IsEmpty) and by a final drain; plus, inside the running proxy, replies of 17..700 bytes and batches of three replies released by one vectored write to a slow reader under every EAGAIN / short-write answer within the bound (the client must receive the exact stream); states = sequences + decision nodes, transitions = operations executed + choice points",
		Seq:  c19Seq, Scenarios: c19Scenarios, BudgetQuick: 90, BudgetThorough: 1200,
		Assumptions: []string{"ReadFrom is driven by readers that return data and EOF in separate calls; WriteTo by writers that return short counts without an error (non-blocking socket behaviour) - the property statement does not cover readers/writers that fail"}})
	SeqReplay["C05"] = func(in string) (string, bool) {
		key, _ := hex.DecodeString(in)
		sig, msg := c05Judge(key)
		if sig == "" {
			return fmt.Sprintf("key %q: proxy slot = specification slot = %d", key, world.SpecSlot(key)), false
		}
		return sig + ": " + msg, true
	}
}
