#!/usr/bin/env python3
# Assembles DESIGN.md from its parts: head (sections 1-2), body (3-7), section 8 generated from seeded/*/meta.json, appendices.
import json,glob,os,sys
root='/verif'
parts=root+'/tools/design_parts'
head=open(parts+'/head.md').read()
body=open(parts+'/body.md').read()
appA=open(parts+'/appA.md').read()
app=open(parts+'/app.md').read()
rows=[]
for d in sorted(glob.glob(root+'/seeded/*/meta.json')):
    m=json.load(open(d))
    rows.append("| %s | %s | %s | %s | %s |" % (m['id'], m['breaks_property'], ", ".join(f.strip().replace('core/','') for f in m['files_changed']), m['needs_to_manifest'].replace('|','/'), ", ".join(m.get('detected_by',[])) or "—"))
own=open(parts+'/own_mutants.md').read() if os.path.exists(parts+'/own_mutants.md') else ''
e3=''
if os.path.exists(root+'/conformance/e3_report.json'):
    r=json.load(open(root+'/conformance/e3_report.json'))
    e3="Last E3 run (`conformance/e3_report.json`): %d scenarios replayed on the unmodified binary over real sockets: %d agree, %d mismatch, %d not confirmed.\n" % (r['scenarios'],r['agree'],r['mismatch'],r['not_confirmed'])
sec8 = """
---------------------------------------------------------------------------------------------------

## 8. Detection demonstrations

### 8.1 Seeded changes written by independent sub-agents

Each change was written by a fresh sub-agent that was given only the text of one property and its own
scratch worktree of the repaired tree — nothing from `/verif`. Each compiles, keeps the 35 baseline
tests passing, and comes with its own demonstration (a `go test` file driving the real code) that
fails with the change and passes without it; all of that was re-confirmed in a fresh worktree before
the change was kept (`seeded/<id>/meta.json`). The last column lists every check (quick tier) that
reports a VIOLATION with the change applied (`bin/seedrun <id> C01 … C20`, i.e. all twenty checks
against a scratch worktree with the patch; spot-confirmed with `git -C /repo apply` / `checkout`).
Checks that missed a change at first were strengthened (noted below the table); no check was loosened.

| seed | breaks | files | needs, in order to manifest | caught by (quick tier) |
|---|---|---|---|---|
""" + "\n".join(rows) + """

Strengthening triggered by misses in the first round: C01 gained the partial-routing family (Tgap),
C03 the "partially routable request *behind a pending one*" family, C02 the slow-reader *pipeline*
(several replies crossing the ring/list boundary of the outbound buffer), C10 the slow-backend family,
C04 the role-flip family (master with open connections demoted), C12 lengths that wrap 2^64 to the
genuine value.

""" + own + "\n" + e3
open(root+'/DESIGN.md','w').write(head+body+sec8+appA+app)
print("DESIGN.md written,", len(open(root+'/DESIGN.md').read().splitlines()), "lines")
