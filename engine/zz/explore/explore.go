// Package explore is the stateless, deviation-bounded depth-first explorer.
// An execution is a pure function of (scenario, choice list): the explorer replays a prefix,
// answers 0 (the default) at every later choice point, and branches on every alternative whose
// deviation count stays within the bound.
package explore

import (
	"fmt"
	"hash/fnv"
	"strings"
	"time"

	"rcproxy/core/pkg/logging"
	"rcproxy/core/vsys"
	"rcproxy/core/zz_verif/world"
)

type Point struct {
	N    int
	Kind string
}

type HarnessError struct{ Msg string }

func (h HarnessError) Error() string { return "harness error: " + h.Msg }

type Found struct {
	Scenario string
	Family   string
	Sig      string
	Msg      string
	Choices  []int
	Devs     int
	Trace    []string
	Log      []string
	Observed []string
}

type Stats struct {
	Scenarios   int
	Execs       int64
	Transitions int64 // choice points executed (incl. replayed prefixes)
	States      int64 // distinct decision nodes of the choice tree that were expanded
	Steps       int64 // scheduling steps executed
	MaxDepth    int
	Replayed    int64 // executions run twice for the determinism check
	Outcomes    map[uint64]struct{}
	Nontrivial  map[uint64]struct{} // outcomes of executions with >= 1 deviation
	Capped      []string            // scenarios stopped by the time budget
	BoundDone   map[string]int      // family -> smallest completed bound (-1 = unbounded)
	HorizonHits int64
	Samples     []string
}

func NewStats() *Stats {
	return &Stats{Outcomes: map[uint64]struct{}{}, Nontrivial: map[uint64]struct{}{}, BoundDone: map[string]int{}}
}

type Explorer struct {
	Deadline time.Time
	Stats    *Stats
	Found    map[string]*Found // by scenario-family + sig
	Replay   int               // every Replay-th execution is run twice (0: only defaults and violations)
	obs      map[string]int
	err      error
}

func New(deadline time.Time) *Explorer {
	return &Explorer{Deadline: deadline, Stats: NewStats(), Found: map[string]*Found{}, Replay: 500}
}

type execResult struct {
	w       *world.World
	points  []Point
	choices []int
	viols   []world.Violation
	fp      uint64
}

func hash(s string) uint64 { h := fnv.New64a(); h.Write([]byte(s)); return h.Sum64() }

func (e *Explorer) run(sc *world.Scenario, prefix []int) (r execResult) {
	var points []Point
	var choices []int
	chooser := func(kind string, n int) int {
		i := len(choices)
		c := 0
		if i < len(prefix) {
			c = prefix[i]
			if c >= n {
				panic(HarnessError{fmt.Sprintf("replay divergence in %s: choice %d at point %d (%s) out of range %d", sc.Name, c, i, kind, n)})
			}
		}
		points = append(points, Point{n, kind})
		choices = append(choices, c)
		return c
	}
	w := world.Execute(sc, chooser)
	if len(choices) < len(prefix) {
		panic(HarnessError{fmt.Sprintf("replay divergence in %s: execution ended after %d points, prefix has %d", sc.Name, len(choices), len(prefix))})
	}
	r.w, r.points, r.choices = w, points, choices
	r.viols = Judge(sc, w)
	r.fp = hash(w.Fingerprint())
	return
}

// Judge applies the universal oracles (crash, livelock, harness-level errors) and the scenario's own.
func Judge(sc *world.Scenario, w *world.World) []world.Violation {
	var vs []world.Violation
	if w.Panic != nil {
		sig := "crash"
		if sc.CrashSig != "" {
			sig = sc.CrashSig
		}
		vs = append(vs, world.Violation{Sig: sig, Msg: fmt.Sprintf("proxy panicked: %v\n%s", w.Panic, clipStack(w.Stack))})
	}
	if w.Livelock {
		vs = append(vs, world.Violation{Sig: "livelock", Msg: "the event loop spins: more than 6e7 loop iterations without a system call, or more than 4e5 system calls within one loop round"})
	}
	if w.RunErr != nil {
		vs = append(vs, world.Violation{Sig: "loop-exit", Msg: "event loop terminated: " + w.RunErr.Error()})
	}
	if w.HorizonHit && sc.HorizonSig != "" {
		vs = append(vs, world.Violation{Sig: sc.HorizonSig, Msg: fmt.Sprintf("execution still producing events after %d scheduling steps", w.Steps)})
	}
	if w.EarlyViol != nil {
		vs = append(vs, *w.EarlyViol)
	}
	if len(vs) == 0 && sc.Check != nil {
		vs = append(vs, sc.Check(w)...)
	}
	return vs
}

func clipStack(s string) string {
	lines := strings.Split(s, "\n")
	var keep []string
	for _, l := range lines {
		if strings.Contains(l, "rcproxy/core") && !strings.Contains(l, "zz_verif") {
			keep = append(keep, strings.TrimSpace(l))
		}
		if len(keep) >= 8 {
			break
		}
	}
	return strings.Join(keep, "\n")
}

// Explore explores one scenario within its deviation bound.
func (e *Explorer) Explore(sc *world.Scenario) {
	e.Stats.Scenarios++
	e.obs = map[string]int{}
	complete := e.explore(sc, nil, 0)
	if complete && sc.Final != nil {
		for _, v := range sc.Final(e.obs) {
			key := sc.Family + "|" + v.Sig
			if _, ok := e.Found[key]; !ok {
				e.Found[key] = &Found{Scenario: sc.Name, Family: sc.Family, Sig: v.Sig, Msg: v.Msg, Choices: nil, Devs: 0}
			}
		}
	}
	b := sc.Bound
	if !complete {
		e.Stats.Capped = append(e.Stats.Capped, sc.Name)
		b = -2
	}
	if old, ok := e.Stats.BoundDone[sc.Family]; !ok {
		e.Stats.BoundDone[sc.Family] = b
	} else if b == -2 || (old != -2 && old != b && (old == -1 || (b >= 0 && b < old))) {
		e.Stats.BoundDone[sc.Family] = b
	}
}

func (e *Explorer) explore(sc *world.Scenario, prefix []int, devs int) bool {
	if time.Now().After(e.Deadline) {
		return false
	}
	r := e.run(sc, prefix)
	st := e.Stats
	st.Execs++
	st.Transitions += int64(len(r.points))
	st.States += int64(len(r.points)-len(prefix)) + 1
	st.Steps += int64(r.w.Steps)
	if len(r.points) > st.MaxDepth {
		st.MaxDepth = len(r.points)
	}
	if r.w.HorizonHit {
		st.HorizonHits++
	}
	if sc.Observe != nil {
		e.obs[sc.Observe(r.w)]++
	}
	nondefault := false
	for _, c := range r.choices {
		if c != 0 {
			nondefault = true
		}
	}
	st.Outcomes[r.fp] = struct{}{}
	if nondefault {
		st.Nontrivial[r.fp] = struct{}{}
	} else if sc.InputEnum {
		st.Nontrivial[r.fp^hash(sc.Name)] = struct{}{}
	}
	needReplay := len(prefix) == 0 || len(r.viols) > 0 || (e.Replay > 0 && st.Execs%int64(e.Replay) == 0)
	if needReplay {
		r2 := e.run(sc, r.choices)
		st.Replayed++
		if r2.fp != r.fp || len(r2.points) != len(r.points) {
			panic(HarnessError{fmt.Sprintf("nondeterminism in %s: same choices %v gave different outcomes", sc.Name, r.choices)})
		}
	}
	if len(st.Samples) < 3 && (len(prefix) == 0 || devs == 2) {
		st.Samples = append(st.Samples, e.describe(sc, r.choices))
	}
	for _, v := range r.viols {
		key := sc.Family + "|" + v.Sig
		if old, ok := e.Found[key]; !ok || devs < old.Devs || (devs == old.Devs && len(r.choices) < len(old.Choices)) {
			f := &Found{Scenario: sc.Name, Family: sc.Family, Sig: v.Sig, Msg: v.Msg, Choices: append([]int{}, r.choices...), Devs: devs}
			e.Found[key] = f
		}
	}
	complete := true
	free := func(kind string) bool {
		for _, k := range sc.FreeKinds {
			if k == kind {
				return true
			}
		}
		return false
	}
	for i := len(prefix); i < len(r.points); i++ {
		cost := 1
		if free(r.points[i].Kind) {
			cost = 0
		}
		if sc.Bound >= 0 && devs+cost > sc.Bound {
			continue
		}
		for alt := 1; alt < r.points[i].N; alt++ {
			np := make([]int, i+1)
			copy(np, r.choices[:i])
			np[i] = alt
			if !e.explore(sc, np, devs+cost) {
				complete = false
				return false
			}
		}
	}
	return complete
}

// Trace re-executes one choice list with tracing on and returns the event trace, the captured
// proxy log and a rendering of what every peer observed.
func Trace(sc *world.Scenario, choices []int) (trace, log, observed []string, viols []world.Violation) {
	vsys.Tracing = true
	logging.Capture = true
	defer func() { vsys.Tracing = false; logging.Capture = false }()
	i := 0
	w := world.Execute(sc, func(kind string, n int) int {
		c := 0
		if i < len(choices) {
			c = choices[i]
		}
		if c >= n {
			c = 0
		}
		i++
		return c
	})
	trace = append([]string{}, vsys.Trace...)
	log = append([]string{}, logging.Lines...)
	for _, c := range w.Clients {
		observed = append(observed, fmt.Sprintf("client %d received %q proxyClosed=%v", c.Idx, c.Received, c.ProxyClosed))
		for j, x := range c.Spec.Expect {
			observed = append(observed, fmt.Sprintf("  expected[%d] %q for %q", j, x, reqOf(c.Spec, j)))
		}
	}
	for _, r := range w.Cmds {
		observed = append(observed, fmt.Sprintf("node %s conn %d got %q -> %q", r.Addr, r.Conn, r.Raw, clip(r.Reply)))
	}
	return trace, log, observed, Judge(sc, w)
}

func reqOf(cs *world.ClientSpec, j int) []byte {
	if j < len(cs.Reqs) {
		return cs.Reqs[j]
	}
	return nil
}

func clip(b []byte) []byte {
	if len(b) > 160 {
		return append(append([]byte{}, b[:160]...), "..."...)
	}
	return b
}

func (e *Explorer) describe(sc *world.Scenario, choices []int) string {
	tr, _, _, _ := Trace(sc, choices)
	var evs []string
	for _, l := range tr {
		if strings.HasPrefix(l, "== step") {
			f := strings.Fields(l)
			if len(f) > 3 {
				evs = append(evs, f[3])
			}
		}
	}
	return fmt.Sprintf("%s choices=%v events=%s", sc.Name, choices, strings.Join(evs, " "))
}
