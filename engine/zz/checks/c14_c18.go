package checks

import (
	"errors"
	"fmt"
	"os"
	"path/filepath"
	"runtime"
	"sort"
	"strings"
	"time"

	"rcproxy/core"
	"rcproxy/core/authip"
	"rcproxy/core/pkg/redis"
	"rcproxy/core/vsys"
	"rcproxy/core/zz_verif/world"
)

// ---------------------------------------------------------------------------------------------
// C14: routing table converges to the latest valid CLUSTER NODES description.

type c14msg struct {
	name  string
	raw   []byte
	valid bool              // expected to be adopted (given >= 3 usable nodes)
	class string            // for unusable replies
	info  map[string]string // what INFO says about these addresses WHILE this message is processed: "loading", "down", "dialerr"
}

// c14InfoNow: per-message INFO answers (set before the message is handed to the reference / to the refresh goroutine)
var c14InfoNow map[string]string

func bulkNodes(text string) []byte {
	if !strings.HasSuffix(text, "\n") {
		text += "\n"
	}
	return world.Bulk(text)
}

func line(name, addr, flags, master string, link string, slots ...string) string {
	if link == "" {
		link = "connected"
	}
	port := addr[strings.LastIndex(addr, ":")+1:]
	l := fmt.Sprintf("%s %s@1%s %s %s 0 0 1 %s", name, addr, port, flags, master, link)
	for _, s := range slots {
		l += " " + s
	}
	return l
}

const (
	nA, nB, nC    = AddrA, AddrB, AddrC
	nD            = AddrD
	nLoad, nDown  = "10.0.5.1:7000", "10.0.5.2:7000"
	nDialErr, nOk = "10.0.5.3:7000", "10.0.5.4:7000"
)

func c14Base() string {
	return strings.Join([]string{
		line("aaa", nA, "master", "-", "", "0-5460"),
		line("bbb", nB, "myself,master", "-", "", "5461-10922"),
		line("ccc", nC, "master", "-", "", "10923-16383"),
		line("a1", AddrA1, "slave", "aaa", ""),
		line("a2", AddrA2, "slave", "aaa", ""),
		line("b1", AddrB1, "slave", "bbb", ""),
	}, "\n")
}

func c14Alphabet() []c14msg {
	rep := func(old, new string) string { return strings.Replace(c14Base(), old, new, 1) }
	msgs := []c14msg{
		{name: "base", raw: bulkNodes(c14Base()), valid: true},
		{name: "failover", raw: bulkNodes(strings.Join([]string{
			line("aaa", nA, "master,fail", "-", "disconnected", "0-5460"),
			line("bbb", nB, "myself,master", "-", "", "5461-10922"),
			line("ccc", nC, "master", "-", "", "10923-16383"),
			line("a1", AddrA1, "master", "-", "", "0-5460"),
			line("a2", AddrA2, "slave", "a1", ""),
			line("b1", AddrB1, "slave", "bbb", ""),
		}, "\n")), valid: true},
		{name: "range-moved", raw: bulkNodes(rep("0-5460", "0-5000")[:0] + strings.Replace(rep("0-5460", "0-5000"), "5461-10922", "5001-10922", 1)), valid: true},
		{name: "range-split-migrating", raw: bulkNodes(strings.Join([]string{
			line("aaa", nA, "master", "-", "", "0-2000", "2002-5460", "[2001->-bbb]"),
			line("bbb", nB, "myself,master", "-", "", "2001", "5461-10922", "[2001-<-aaa]"),
			line("ccc", nC, "master", "-", "", "10923-16383"),
			line("a1", AddrA1, "slave", "aaa", ""),
			line("a2", AddrA2, "slave", "aaa", ""),
			line("b1", AddrB1, "slave", "bbb", ""),
		}, "\n")), valid: true},
		{name: "node-added", raw: bulkNodes(strings.Replace(c14Base(), "10923-16383", "10923-11999", 1) + "\n" + line("ddd", nD, "master", "-", "", "12000-16383")), valid: true},
		{name: "replica-removed", raw: bulkNodes(strings.Replace(c14Base(), line("a2", AddrA2, "slave", "aaa", "")+"\n", "", 1)), valid: true},
		{name: "replica-reparented", raw: bulkNodes(strings.Replace(c14Base(), line("a2", AddrA2, "slave", "aaa", ""), line("a2", AddrA2, "slave", "bbb", ""), 1)), valid: true},
		{name: "replica-disconnected", raw: bulkNodes(strings.Replace(c14Base(), line("a1", AddrA1, "slave", "aaa", ""), line("a1", AddrA1, "slave", "aaa", "disconnected"), 1)), valid: true},
		{name: "handshake-noaddr", raw: bulkNodes(c14Base() + "\n" + line("eee", "10.0.6.1:7000", "handshake", "-", "") + "\n" + "fff :0@0 master,noaddr - 0 0 1 disconnected 100-200" + "\n" + line("ggg", "10.0.6.2:7000", "slave,fail", "aaa", "")), valid: true},
		{name: "new-replicas-info", raw: bulkNodes(c14Base() + "\n" + line("n1", nLoad, "slave", "ccc", "") + "\n" + line("n2", nDown, "slave", "ccc", "") + "\n" + line("n3", nDialErr, "slave", "ccc", "") + "\n" + line("n4", nOk, "slave", "ccc", "")), valid: true},
		// a replica that was adopted, dropped, and is listed again while it is still synchronising (a restarted node)
		{name: "a2-listed-while-loading", raw: bulkNodes(c14Base()), valid: true, info: map[string]string{AddrA2: "loading"}},
		{name: "a2-listed-while-link-down", raw: bulkNodes(c14Base()), valid: true, info: map[string]string{AddrA2: "down"}},
		{name: "unclaimed-range", raw: bulkNodes(strings.Replace(c14Base(), "10923-16383", "10923-12000", 1)), valid: true},
		{name: "nil-bulk", raw: []byte("$-1\r\n"), class: "nil-bulk"},
		{name: "error", raw: []byte("-ERR unknown command 'cluster'\r\n"), class: "error"},
		{name: "loading-error", raw: []byte("-LOADING Redis is loading the dataset in memory\r\n"), class: "error"},
		{name: "status", raw: []byte("+OK\r\n"), class: "status"},
		{name: "oversize", raw: bulkNodes(c14Base() + "\n" + strings.Repeat(line("zzz", "10.0.9.9:7000", "slave,fail", "aaa", "")+"\n", 2000)), class: "oversize"},
		{name: "two-usable-nodes", raw: bulkNodes(line("aaa", nA, "master", "-", "", "0-8000") + "\n" + line("bbb", nB, "master", "-", "", "8001-16383") + "\n" + line("ccc", nC, "master,fail", "-", "", "")), class: "short"},
		{name: "seven-columns", raw: bulkNodes("aaa 10.0.0.1:7000@17000 master - 0 0 1\nbbb 10.0.0.2:7000@17000 master - 0 0 2\nccc 10.0.0.3:7000@17000 master - 0 0 3"), class: "malformed-text"},
		{name: "garbage-text", raw: bulkNodes("hello world\nthis is not a node table"), class: "malformed-text"},
	}
	return msgs
}

// reference: topology described by a text under the statement's filtering rules
type refTopo struct {
	master map[int]string      // slot -> master addr
	reps   map[string][]string // master addr -> usable replica addrs
	nodes  map[string]string   // addr -> role
}

func c14Info(addr string) (*redis.Info, error) {
	switch c14InfoNow[strings.TrimPrefix(addr, "dial:")] {
	case "loading":
		return &redis.Info{Version: "6.0.0", Loading: true, MasterLinkStatus: "up"}, nil
	case "down":
		return &redis.Info{Version: "6.0.0", MasterLinkStatus: "down"}, nil
	case "dialerr":
		return nil, errors.New("dial tcp: connection refused")
	}
	switch addr {
	case nLoad:
		return &redis.Info{Version: "6.0.0", Loading: true, MasterLinkStatus: "up"}, nil
	case nDown:
		return &redis.Info{Version: "6.0.0", MasterLinkStatus: "down"}, nil
	case nDialErr, "dial:" + nDialErr:
		return nil, errors.New("dial tcp: connection refused")
	}
	return &redis.Info{Version: "6.0.0", MasterLinkStatus: "up"}, nil
}

// refParse returns nil when the text is not a valid description (fewer than three usable nodes).
func refParse(text string, known map[string]bool) *refTopo {
	type node struct {
		name, addr, master string
		isMaster           bool
		slots              [][2]int
	}
	var nodes []node
	for _, l := range strings.Split(text, "\n") {
		f := strings.Fields(l)
		if len(f) < 8 {
			continue
		}
		flags := f[2]
		// the flags column is a comma-separated list: fail / fail? (possibly failing), handshake, noaddr make a node unusable;
		// "nofailover" (a replica that must not be promoted) does not - it merely CONTAINS the letters of "fail"
		has := func(fl string) bool {
			for _, t := range strings.Split(flags, ",") {
				if t == fl {
					return true
				}
			}
			return false
		}
		if has("noaddr") || has("handshake") || has("fail") || has("fail?") {
			continue
		}
		if !has("master") && !has("slave") {
			continue
		}
		if f[7] != "connected" {
			continue
		}
		addr := f[1]
		if i := strings.Index(addr, "@"); i >= 0 {
			addr = addr[:i]
		}
		if strings.HasPrefix(addr, ":") || !strings.Contains(addr, ":") {
			continue
		}
		n := node{name: f[0], addr: addr, master: f[3], isMaster: has("master")}
		if n.isMaster {
			bad := false
			for _, s := range f[8:] {
				if strings.HasPrefix(s, "[") {
					continue
				}
				var a, b int
				if strings.Contains(s, "-") {
					if _, err := fmt.Sscanf(s, "%d-%d", &a, &b); err != nil {
						bad = true
					}
				} else {
					if _, err := fmt.Sscanf(s, "%d", &a); err != nil {
						bad = true
					}
					b = a
				}
				n.slots = append(n.slots, [2]int{a, b})
			}
			if bad || len(f) < 9 {
				continue
			}
		}
		if !known[addr] && !n.isMaster {
			info, err := c14Info(addr)
			if err != nil || info.Loading || info.MasterLinkStatus != "up" {
				continue
			}
		}
		nodes = append(nodes, n)
	}
	if len(nodes) < 3 {
		return nil
	}
	t := &refTopo{master: map[int]string{}, reps: map[string][]string{}, nodes: map[string]string{}}
	byName := map[string]string{}
	for _, n := range nodes {
		if n.isMaster {
			byName[n.name] = n.addr
			t.nodes[n.addr] = "master"
			for _, r := range n.slots {
				for s := r[0]; s <= r[1] && s < 16384; s++ {
					t.master[s] = n.addr
				}
			}
		}
	}
	for _, n := range nodes {
		if !n.isMaster {
			t.nodes[n.addr] = "slave"
			if m, ok := byName[n.master]; ok {
				t.reps[m] = append(t.reps[m], n.addr)
			}
		}
	}
	for m := range t.reps {
		sort.Strings(t.reps[m])
	}
	return t
}

func textOf(raw []byte) (string, bool) {
	if len(raw) < 4 || raw[0] != '$' || raw[1] == '-' {
		return "", false
	}
	i := strings.Index(string(raw), "\r\n")
	if i < 0 {
		return "", false
	}
	var n int
	fmt.Sscanf(string(raw[1:i]), "%d", &n)
	if n > 163840 {
		return "", false
	}
	body := string(raw[i+2:])
	return strings.TrimSuffix(body, "\r\n"), true
}

// c14Run pushes one history through the real refresh loop and compares the routing table.
func c14Run(hist []int, alpha []c14msg) (sig, msg, state string) {
	// INFO probes of newly discovered nodes travel through the proxy's REAL redis client over an in-memory connection;
	// what the node reports is c14Info's business; every reply arrives in pieces of 7 bytes on every second history
	sc := &world.Scenario{Nodes: nil, NoBootTick: true, Horizon: 50, Name: "C14/history", Info: c14Info}
	if len(hist)%2 == 0 {
		sc.ProbePiece = 7
	}
	var barrier chan string
	var verdict *world.Violation
	kill := false
	sc.AfterBoot = func(w *world.World) {}
	// reference
	known := map[string]bool{}
	var ref *refTopo
	adopt := func(raw []byte) {
		if text, ok := textOf(raw); ok {
			if t := refParse(text, known); t != nil {
				ref = t
				known = map[string]bool{}
				for a := range t.nodes {
					known[a] = true
				}
			}
		}
	}
	c14InfoNow = nil
	adopt(bulkNodes(c14Base()))
	lastUnusable := ""
	for _, h := range hist {
		before := ref
		c14InfoNow = alpha[h].info
		adopt(alpha[h].raw)
		if alpha[h].class != "" && ref == before {
			lastUnusable = alpha[h].class
		}
	}
	_ = lastUnusable

	w := world.ExecuteWith(sc, func(string, int) int { return 0 }, func(w *world.World) {
		barrier = make(chan string, 4)
		c14InfoNow = nil
		vw, err := core.VerifBoot(w.Handler, w.Ln.Fd, w.Opts, c14Base(), func(addr string) (*redis.Info, error) {
			if strings.HasPrefix(addr, "10.255.") {
				if kill {
					runtime.Goexit() // end of the history: terminate the refresh goroutine from inside (deferred close(done) runs)
				}
				barrier <- addr
			}
			return c14Info(addr)
		})
		if err != nil {
			verdict = &world.Violation{Sig: "harness", Msg: err.Error()}
			return
		}
		w.VW = vw
		vw.VerifTicker()
		var pan interface{}
		done := core.VerifRunRefreshLoop(&pan)
		base := runtime.NumGoroutine() // main + refresh goroutine (+ runtime helpers)
		dead := false
		diedOn := ""
		c14InfoNow = nil
		for i, h := range hist {
			c14InfoNow = alpha[h].info
			// message, then a barrier: when the barrier's INFO probe arrives, the message has been processed
			if !core.VerifSendProbeReply(alpha[h].raw, done) || !core.VerifSendProbeReply(bulkNodes(line("bar", fmt.Sprintf("10.255.0.%d:1", i+1), "slave", "nobody", "")), done) {
				dead = true
			} else {
				select {
				case <-barrier:
				case <-done:
					dead = true
				}
			}
			core.VerifQuiesce(base)
			if dead {
				diedOn = alpha[h].class
				if diedOn == "" {
					diedOn = "valid-text:" + alpha[h].name
				}
				break
			}
		}
		if pan != nil {
			verdict = &world.Violation{Sig: "refresh-loop-panics", Msg: fmt.Sprintf("history %s: the refresh goroutine panicked (this kills the proxy process): %v", histNames(hist, alpha), pan)}
			return
		}
		// two ticker rounds of virtual time
		for r := 0; r < 2; r++ {
			vsys.Advance(1100 * time.Millisecond)
			if p := vw.VerifTicker(); p != nil {
				verdict = &world.Violation{Sig: "crash", Msg: fmt.Sprintf("history %s: ticker panicked: %v", histNames(hist, alpha), p)}
				return
			}
		}
		state = core.VerifRefreshState()
		// compare the routing table with the reference
		diff := ""
		for s := 0; s < 16384 && diff == ""; s++ {
			m, sl := core.VerifSlotOwner(int32(s))
			wantM := ref.master[s]
			if m != wantM {
				diff = fmt.Sprintf("slot %d is routed to master %q, the last valid description says %q", s, m, wantM)
				break
			}
			if m != "" && strings.Join(sl, ",") != strings.Join(ref.reps[wantM], ",") {
				diff = fmt.Sprintf("slot %d (master %s): replicas used %v, the last valid description gives %v", s, m, sl, ref.reps[wantM])
			}
		}
		if diff == "" {
			var want []string
			for a, r := range ref.nodes {
				want = append(want, fmt.Sprintf("%s %s closed=false", a, r))
			}
			sort.Strings(want)
			if got := core.VerifPools(); strings.Join(got, ";") != strings.Join(want, ";") {
				diff = fmt.Sprintf("connection pools %v, expected %v", got, want)
			}
		}
		if diff != "" {
			sig := "stale-or-wrong-table"
			switch {
			case dead:
				sig = "refresh-loop-exits-on:" + diedOn
			case strings.Contains(diff, "replicas used"):
				sig = "replica-set-wrong"
				for _, h := range hist {
					if alpha[h].name == "replica-reparented" {
						sig = "replica-reparent-undetected"
					}
				}
			}
			verdict = &world.Violation{Sig: sig, Msg: fmt.Sprintf("history %s (refresh goroutine alive=%v): %s", histNames(hist, alpha), !dead, diff)}
		} else if dead {
			sig := "refresh-loop-exits-on:" + diedOn
			verdict = &world.Violation{Sig: sig, Msg: fmt.Sprintf("history %s: the refresh goroutine terminated, so no later update can ever be adopted", histNames(hist, alpha))}
		}
		// let the goroutine go: the next barrier probe terminates it from inside
		if !dead {
			kill = true
			core.VerifSendProbeReply(bulkNodes(line("bar", "10.255.9.9:1", "slave", "nobody", "")), done)
			<-done
		}
	})
	if w.Panic != nil && verdict == nil {
		verdict = &world.Violation{Sig: "crash", Msg: fmt.Sprint(w.Panic)}
	}
	if verdict != nil {
		return verdict.Sig, verdict.Msg, state
	}
	return "", "", state
}

func histNames(hist []int, alpha []c14msg) string {
	var s []string
	for _, h := range hist {
		s = append(s, alpha[h].name)
	}
	return "[" + strings.Join(s, " -> ") + "]"
}

// c14Texts: single-text variations (flag combinations, link states, slot range shapes, column counts) of one node
// line inside an otherwise valid description; each is judged as a history of length 1 and 2 (after the base text).
func c14Texts() []c14msg {
	var out []c14msg
	flags := []string{"master", "myself,master", "slave", "myself,slave", "master,fail", "slave,fail", "master,handshake", "slave,handshake", "master,noaddr", "noflags",
		"slave,nofailover", "myself,slave,nofailover", "master,nofailover", "slave,fail?", "master,fail?,nofailover"}
	links := []string{"connected", "disconnected"}
	slotShapes := [][]string{{"10923-16383"}, {"10923-12000", "12002-16383", "12001"}, {"10923-16383", "[11000->-bbb]"}, {}, {"10923-16383", "[93-<-aaa]", "[94-<-aaa]"},
		{"[93-<-aaa]"}} // the last: a new master importing its first slot (no plain slot column, only the marker): a usable node
	for _, fl := range flags {
		for _, lk := range links {
			for si, sl := range slotShapes {
				master := "-"
				if strings.Contains(fl, "slave") {
					master = "aaa"
					if si > 0 {
						continue
					}
				}
				// the varied node replaces ccc; a spare master keeps the slot range owned when ccc is unusable
				lines := []string{
					line("aaa", nA, "master", "-", "", "0-5460"),
					line("bbb", nB, "master", "-", "", "5461-10922"),
					line("xxx", nC, fl, master, lk, sl...),
					line("ddd", nD, "master", "-", "", "16000-16100"),
					line("a1", AddrA1, "slave", "aaa", ""),
				}
				out = append(out, c14msg{name: fmt.Sprintf("text[%s/%s/slots%d]", fl, lk, si), raw: bulkNodes(strings.Join(lines, "\n")), valid: true})
			}
		}
	}
	// column counts and odd lines
	out = append(out,
		c14msg{name: "text[extra-blank-lines]", raw: bulkNodes("\n" + c14Base() + "\n\n"), valid: true},
		c14msg{name: "text[9th-column-garbage-on-slave]", raw: bulkNodes(c14Base() + "\n" + line("z1", "10.0.7.1:7000", "slave", "ccc", "") + " trailing"), valid: true},
		c14msg{name: "text[addr-without-cport]", raw: bulkNodes(strings.ReplaceAll(c14Base(), "@17000", "")), valid: true},
		c14msg{name: "text[hostname-addr]", raw: bulkNodes(c14Base() + "\n" + "h1 :7000@17000 slave aaa 0 0 1 connected"), valid: true},
	)
	// small clusters: three usable NODES are enough, whatever their roles
	out = append(out,
		c14msg{name: "text[two-masters-one-replica]", raw: bulkNodes(strings.Join([]string{
			line("aaa", nA, "master", "-", "", "0-8000"), line("bbb", nB, "myself,master", "-", "", "8001-16383"), line("a1", AddrA1, "slave", "aaa", "")}, "\n")), valid: true},
		c14msg{name: "text[one-master-two-replicas]", raw: bulkNodes(strings.Join([]string{
			line("aaa", nA, "myself,master", "-", "", "0-16383"), line("a1", AddrA1, "slave", "aaa", ""), line("a2", AddrA2, "slave", "aaa", "")}, "\n")), valid: true},
		c14msg{name: "text[two-masters-third-failed-plus-replicas]", raw: bulkNodes(strings.Join([]string{
			line("aaa", nA, "master", "-", "", "0-5460"), line("bbb", nB, "myself,master", "-", "", "5461-10922"), line("ccc", nC, "master,fail", "-", "disconnected", "10923-16383"),
			line("a1", AddrA1, "slave", "aaa", ""), line("b1", AddrB1, "slave", "bbb", "")}, "\n")), valid: true},
		c14msg{name: "text[four-masters-no-replicas]", raw: bulkNodes(strings.Join([]string{
			line("aaa", nA, "master", "-", "", "0-4000"), line("bbb", nB, "myself,master", "-", "", "4001-8000"), line("ccc", nC, "master", "-", "", "8001-12000"), line("ddd", nD, "master", "-", "", "12001-16383")}, "\n")), valid: true},
	)
	// the order of the lines is arbitrary in CLUSTER NODES output (a replica may be listed before its master)
	base := strings.Split(strings.Replace(c14Base(), "10923-16383", "10923-16000", 1), "\n")
	rev := make([]string, len(base))
	for i, l := range base {
		rev[len(base)-1-i] = l
	}
	out = append(out,
		c14msg{name: "text[lines-reversed]", raw: bulkNodes(strings.Join(rev, "\n")), valid: true},
		c14msg{name: "text[replicas-first]", raw: bulkNodes(strings.Join(append(append([]string{}, base[3:]...), base[:3]...), "\n")), valid: true},
		c14msg{name: "text[interleaved]", raw: bulkNodes(strings.Join([]string{base[4], base[0], base[5], base[1], base[3], base[2]}, "\n")), valid: true},
	)
	return out
}

// c14Perms: the base description under EVERY order of its six lines (each judged as a history of length 1)
func c14Perms() []c14msg {
	// (a slot boundary differs from the description adopted at boot, so every one of them is a change to adopt)
	base := strings.Split(strings.Replace(strings.Replace(c14Base(), "0-5460", "0-5000", 1), "5461-10922", "5001-10922", 1), "\n")
	var out []c14msg
	var rec func(cur []int, used int)
	rec = func(cur []int, used int) {
		if len(cur) == len(base) {
			ls := make([]string, len(cur))
			for i, j := range cur {
				ls[i] = base[j]
			}
			out = append(out, c14msg{name: fmt.Sprintf("perm%v", cur), raw: bulkNodes(strings.Join(ls, "\n")), valid: true})
			return
		}
		for j := range base {
			if used&(1<<j) == 0 {
				rec(append(cur, j), used|1<<j)
			}
		}
	}
	rec(nil, 0)
	return out
}

func c14Seq(tier string, shard, n int, deadline time.Time, res *Result) {
	for i, t := range c14Perms() {
		if tier != "thorough" && i%3 != 0 {
			continue // quick tier: every third of the 720 orders (each line still occurs at every position)
		}
		if (i/3)%n != shard {
			continue
		}
		sig, msg, _ := c14Run([]int{0}, []c14msg{t})
		res.Execs++
		res.Transitions++
		if sig != "" {
			addFound(res, "texts", sig, msg, "text:"+t.name)
		}
	}
	// generated single texts, as histories [text] and [base, text]
	{
		texts := c14Texts()
		base := c14Alphabet()[0]
		for i, t := range texts {
			if i%n != shard {
				continue
			}
			for _, h := range [][]c14msg{{t}, {base, t}, {t, base}} {
				alpha2 := h
				idx := make([]int, len(h))
				for k := range h {
					idx[k] = k
				}
				sig, msg, _ := c14Run(idx, alpha2)
				res.Execs++
				res.Transitions += int64(len(h))
				if sig != "" {
					addFound(res, "texts", sig, msg, "text:"+t.name)
				}
			}
		}
	}
	alpha := c14Alphabet()
	depth := 3
	if tier == "thorough" {
		depth = 4
	}
	seen := map[string]bool{}
	states := map[uint64]struct{}{}
	type item struct{ hist []int }
	var frontier []item
	for i := range alpha {
		if i%n == shard {
			frontier = append(frontier, item{[]int{i}})
		}
	}
	for d := 1; d <= depth && len(frontier) > 0; d++ {
		var next []item
		for _, it := range frontier {
			if time.Now().After(deadline) {
				res.Exhaustive = false
				res.Capped = append(res.Capped, fmt.Sprintf("depth %d", d))
				break
			}
			sig, msg, state := c14Run(it.hist, alpha)
			res.Execs++
			res.Transitions += int64(len(it.hist))
			if sig != "" {
				addFound(res, "histories", sig, msg, fmt.Sprint(it.hist))
			}
			if len(res.Samples) < 3 {
				res.Samples = append(res.Samples, histNames(it.hist, alpha))
			}
			h := hashStr(state)
			states[h] = struct{}{}
			// de-duplicate on the canonical dump of the real refresh state + whether the loop is still alive
			key := state + fmt.Sprint(sig != "" && strings.HasPrefix(sig, "refresh-loop-exits"))
			if seen[key] && d > 1 {
				continue
			}
			seen[key] = true
			if d < depth {
				for i := range alpha {
					next = append(next, item{append(append([]int{}, it.hist...), i)})
				}
			}
		}
		frontier = next
	}
	res.States = int64(len(states))
	res.Scenarios = int(res.Execs)
	for k := range states {
		res.Outcomes = append(res.Outcomes, k)
		res.Nontrivial = append(res.Nontrivial, k)
	}
}

func hashStr(s string) uint64 {
	h := uint64(1469598103934665603)
	for i := 0; i < len(s); i++ {
		h = (h ^ uint64(s[i])) * 1099511628211
	}
	return h
}

// ---------------------------------------------------------------------------------------------
// C18: IP whitelist admits exactly the configured addresses, also after reload.

var c18IPs = []string{"127.0.0.1", "127.0.0.2", "127.0.0.3"}
var c18Probe = [][4]byte{{127, 0, 0, 1}, {127, 0, 0, 2}, {127, 0, 0, 3}, {10, 1, 2, 3}, {127, 0, 0, 10}, {27, 0, 0, 1}} // the last two: a listed address is a proper prefix / suffix of theirs

// c18Extra: further file contents (states 16..): duplicate lines, more lines than distinct addresses, the foreign and the
// near-miss addresses listed, lines in another order; all with the whitelist enabled
var c18Extra = [][]string{
	{"127.0.0.1", "127.0.0.2", "127.0.0.2"},
	{"127.0.0.1", "127.0.0.1", "127.0.0.1"},
	{"127.0.0.2", "127.0.0.2", "127.0.0.3", "127.0.0.3"},
	{"127.0.0.1", "127.0.0.2", "127.0.0.2", "10.1.2.3"},
	{"127.0.0.10", "127.0.0.2"},
	{"10.1.2.3"},
	{"127.0.0.3", "127.0.0.2", "127.0.0.1"},
}

// c18Raw: file contents in which a key is ABSENT (states 23..): only "enable: true" (nobody listed: nobody is admitted),
// only the list (the whitelist is off: everyone is admitted), an empty file (off), "enable: false" alone (off)
var c18Raw = []struct {
	text   string
	enable bool
	lines  []string
}{
	{"enable: true\n", true, nil},
	{"ip_white_list:\n  - 127.0.0.1\n  - 127.0.0.3\n", false, []string{"127.0.0.1", "127.0.0.3"}},
	{"", false, nil},
	{"enable: false\n", false, nil},
	{"# nothing configured\n", false, nil},
}

const c18NStates = 16 + 7 + 5

func c18Lines(state int) (enable bool, lines []string) {
	if state >= 16+len(c18Extra) {
		r := c18Raw[state-16-len(c18Extra)]
		return r.enable, r.lines
	}
	if state >= 16 {
		return true, c18Extra[state-16]
	}
	// bit 3: enable; bits 0..2: addresses listed
	for i, ip := range c18IPs {
		if state&(1<<i) != 0 {
			lines = append(lines, ip)
		}
	}
	return state&8 != 0, lines
}

func c18Enabled(state int) bool { e, _ := c18Lines(state); return e }

func c18File(state int) string {
	if state >= 16+len(c18Extra) {
		return c18Raw[state-16-len(c18Extra)].text
	}
	en, lines := c18Lines(state)
	t := "enable: false\n"
	if en {
		t = "enable: true\n"
	}
	t += "ip_white_list:\n"
	for _, ip := range lines {
		t += "  - " + ip + "\n"
	}
	return t
}

func c18Admitted(state int, ip [4]byte) bool {
	en, lines := c18Lines(state)
	if !en {
		return true
	}
	for _, l := range lines {
		if fmt.Sprintf("%d.%d.%d.%d", ip[0], ip[1], ip[2], ip[3]) == l {
			return true
		}
	}
	return false
}

func c18Describe(hist []int) string {
	var s []string
	for _, st := range hist {
		s = append(s, strings.ReplaceAll(strings.TrimSpace(c18File(st)), "\n", " "))
	}
	return "[" + strings.Join(s, " => ") + "]"
}

func c18Run(dir string, hist []int) (sig, msg string) {
	final := hist[len(hist)-1]
	sc := &world.Scenario{Nodes: T3m(), Bound: 0, Horizon: 800, Name: "C18/history"}
	// histories of two or more contents: the probing clients connect BEFORE the last change as well (judged by the content
	// in force then) and again after it, so that whatever the admission path remembers about earlier connections is there
	interleaved := len(hist) > 1
	boot := hist
	if interleaved {
		boot = hist[:len(hist)-1]
	}
	nA := 0
	if interleaved {
		for _, ip := range c18Probe {
			cs := ClientOf([]Req{GetReq(keysA[0]), GetReq(keysB[0])}, true)
			cs.IP = ip
			sc.Clients = append(sc.Clients, cs)
		}
		nA = len(c18Probe)
		batchADone := func(w *world.World) bool {
			for i := 0; i < nA; i++ {
				c := w.Clients[i]
				if !c.Accepted {
					return false
				}
				if !c.ProxyClosed && c.NReplies < 2 {
					return false
				}
			}
			return true
		}
		sc.Faults = []world.Fault{{Kind: "whitelist", Dir: dir, Text: c18File(final), Gate: batchADone}}
	}
	for _, ip := range c18Probe {
		cs := ClientOf([]Req{GetReq(keysA[0]), GetReq(keysB[0])}, true)
		cs.IP = ip
		if interleaved {
			cs.ConnectGate = func(w *world.World) bool { return w.FaultsDone() }
		}
		sc.Clients = append(sc.Clients, cs)
	}
	var herr error
	sc.AfterBoot = func(w *world.World) {
		authip.VerifReset()
		for _, st := range boot {
			if err := os.WriteFile(filepath.Join(dir, "authip.yaml"), []byte(c18File(st)), 0o644); err != nil {
				herr = err
				return
			}
			if err := authip.VerifReload(dir, "authip.yaml"); err != nil {
				herr = err
				return
			}
		}
	}
	w := world.Execute(sc, func(string, int) int { return 0 })
	if herr != nil {
		return "harness", herr.Error()
	}
	if w.Panic != nil {
		return "crash", fmt.Sprint(w.Panic)
	}
	judge := func(clients []*world.Client, upto int, when string) (string, string) {
		state := hist[upto]
		for i, c := range clients {
			ip := c18Probe[i]
			ips := fmt.Sprintf("%d.%d.%d.%d", ip[0], ip[1], ip[2], ip[3])
			if c18Admitted(state, ip) {
				rs, _, _ := world.SplitReplies(c.Received)
				if c.ProxyClosed || len(rs) != 2 {
					return "listed-address-rejected", fmt.Sprintf("history %s: client from %s connecting %s must be served but got %q (closed=%v)", c18Describe(hist), ips, when, c.Received, c.ProxyClosed)
				}
				continue
			}
			if !c.ProxyClosed || len(c.Received) > 0 {
				s := "unlisted-address-admitted"
				for _, st := range hist[:upto] {
					if c18Enabled(st) && c18Admitted(st, ip) {
						s = "removed-address-still-admitted"
					}
				}
				return s, fmt.Sprintf("history %s: client from %s connecting %s is not in the list in force but was not rejected (received %q, closed=%v)", c18Describe(hist), ips, when, c.Received, c.ProxyClosed)
			}
		}
		return "", ""
	}
	nAdm := 0
	if interleaved {
		if s, m := judge(w.Clients[:nA], len(hist)-2, "before the last change"); s != "" {
			return s, m
		}
		for _, ip := range c18Probe {
			if c18Admitted(hist[len(hist)-2], ip) {
				nAdm++
			}
		}
	}
	if s, m := judge(w.Clients[nA:], len(hist)-1, "after the last change"); s != "" {
		return s, m
	}
	// nothing of a rejected client reached a backend
	for _, ip := range c18Probe {
		if c18Admitted(final, ip) {
			nAdm++
		}
	}
	if got := len(w.DataCmds("")); got != 2*nAdm {
		return "rejected-client-forwarded", fmt.Sprintf("history %s: %d admitted connections sent 2 requests each, but backends received %d commands", c18Describe(hist), nAdm, got)
	}
	return "", ""
}

// c18Scenarios: admission under interleavings: an unlisted client whose request is already in the socket when it is
// accepted (its read event may be handled before the queued tasks run), next to a listed client.
func c18Scenarios(tier string) []*world.Scenario {
	b := 2
	if tier == "thorough" {
		b = 4
	}
	var out []*world.Scenario
	for _, reqs := range [][]Req{{PingReq()}, {GetReq(keysA[0])}, {GetReq(keysA[0]), GetReq(keysB[0])}, {MGetReq(keysA[0], keysB[0])}} {
		for _, order := range []int{0, 1} {
			bad := ClientOf(reqs, true)
			bad.IP = [4]byte{127, 0, 0, 2}
			good := ClientOf([]Req{GetReq(keysC[0])}, true)
			good.IP = [4]byte{127, 0, 0, 1}
			sc := &world.Scenario{Nodes: T3m(), Bound: b, Horizon: 300, Family: "admission-interleavings", Whitelist: []string{"127.0.0.1"}}
			if order == 0 {
				sc.Clients = []world.ClientSpec{bad, good}
			} else {
				sc.Clients = []world.ClientSpec{good, bad}
			}
			bi := order
			sc.Name = fmt.Sprintf("C18/e1/%s/unlisted-is-client%d/d%d", reqs[0].Kind, bi, b)
			gk := keysC[0]
			sc.Check = func(w *world.World) []world.Violation {
				c := w.Clients[bi]
				if len(c.Received) > 0 {
					return []world.Violation{{Sig: "rejected-client-got-bytes", Msg: fmt.Sprintf("client from 127.0.0.2 (not listed) received %q", c.Received)}}
				}
				for _, rec := range w.DataCmds("") {
					if !hasKey(rec.Args, gk) {
						return []world.Violation{{Sig: "rejected-client-forwarded", Msg: fmt.Sprintf("a request of the unlisted client reached node %s: %q", rec.Addr, rec.Raw)}}
					}
				}
				if !c.ProxyClosed && c.Accepted {
					return []world.Violation{{Sig: "unlisted-address-admitted", Msg: "client from 127.0.0.2 was accepted and not closed"}}
				}
				g := w.Clients[1-bi]
				rs, _, _ := world.SplitReplies(g.Received)
				if len(rs) != 1 || g.ProxyClosed {
					return []world.Violation{{Sig: "listed-address-rejected", Msg: fmt.Sprintf("listed client got %q closed=%v", g.Received, g.ProxyClosed)}}
				}
				return nil
			}
			out = append(out, sc)
		}
	}
	return out
}

func c18Seq(tier string, shard, n int, deadline time.Time, res *Result) {
	dir, err := os.MkdirTemp("", "verif-c18-")
	if err != nil {
		res.HarnessErr = err.Error()
		return
	}
	defer os.RemoveAll(dir)
	depth := 2
	if tier == "thorough" {
		depth = 3
	}
	idx := 0
	outcomes := map[uint64]struct{}{}
	var rec func(cur []int)
	rec = func(cur []int) {
		if len(cur) > 0 {
			idx++
			if idx%n == shard && !time.Now().After(deadline) {
				sig, msg := c18Run(dir, cur)
				res.Execs++
				res.Transitions += int64(len(cur))
				if sig != "" {
					addFound(res, "histories", sig, msg, fmt.Sprint(cur))
				}
				outcomes[hashStr(fmt.Sprint(cur[len(cur)-1], sig))] = struct{}{}
				if len(res.Samples) < 3 && len(cur) == depth {
					res.Samples = append(res.Samples, c18Describe(cur))
				}
			}
		}
		if len(cur) == depth {
			return
		}
		for st := 0; st < c18NStates; st++ {
			rec(append(cur, st))
		}
	}
	rec(nil)
	if time.Now().After(deadline) {
		res.Exhaustive = false
	}
	res.States = res.Execs
	res.Scenarios = int(res.Execs)
	for k := range outcomes {
		res.Outcomes = append(res.Outcomes, k)
		res.Nontrivial = append(res.Nontrivial, k)
	}
	if shard == 0 {
		c18Watcher(res) // the real fsnotify watcher: in-place and rename edits (milliseconds when it converges)
	}
}

// c18Watcher drives the real fsnotify watcher on a scratch directory (thorough tier only).
func c18Watcher(res *Result) {
	dir, err := os.MkdirTemp("", "verif-c18w-")
	if err != nil {
		res.Notes = append(res.Notes, "watcher: "+err.Error())
		return
	}
	defer os.RemoveAll(dir)
	file := filepath.Join(dir, "authip.yaml")
	os.WriteFile(file, []byte(c18File(8|1|2)), 0o644)
	authip.VerifReset()
	authip.VerifTouch()
	if err := authip.LoopIPWhiteList(dir, "authip.yaml"); err != nil {
		res.Notes = append(res.Notes, "watcher not started: "+err.Error())
		return
	}
	converged := func(state int) bool {
		for i := 0; i < 400; i++ { // up to 20 s of real time: far more than the statement's "few seconds", so that a heavily loaded machine never causes an alarm; a watcher that misses the edit never converges at all
			ok := true
			for _, ip := range c18Probe {
				ips := fmt.Sprintf("%d.%d.%d.%d", ip[0], ip[1], ip[2], ip[3])
				if authip.IpMap.Validate(ips) != c18Admitted(state, ip) {
					ok = false
				}
			}
			if ok {
				return true
			}
			time.Sleep(50 * time.Millisecond)
		}
		return false
	}
	// pre: what happens to the file just before the edit - "invalid": it briefly holds text that is not YAML (the reload of
	// that version fails), "away": it is moved away and the new version is moved into place a moment later (the reload in
	// between finds no file). The admitted set must equal the final file all the same.
	steps := []struct {
		state  int
		rename bool
		pre    string
	}{{8 | 1 | 2 | 4, false, ""}, {8 | 1, false, ""}, {0, false, ""}, {8 | 4, false, ""}, {8 | 1 | 2, true, ""}, {8 | 2, true, ""}, {8 | 2 | 4, false, ""}, {23, false, ""}, {8 | 1, false, ""}, {24, true, ""}, {17, false, ""},
		{8 | 1 | 4, false, "invalid"}, {8 | 2, false, ""}, {8 | 1, true, "away"}, {8 | 4, false, ""}, {8 | 1 | 2, true, "invalid"}, {8 | 4, true, ""}}
	for i, st := range steps {
		switch st.pre {
		case "invalid":
			os.WriteFile(file, []byte("enable: [true\nip_white_list: {{\n"), 0o644)
			time.Sleep(150 * time.Millisecond) // lets the watcher consume the failing version; not an oracle
		case "away":
			os.Rename(file, file+".bak")
			time.Sleep(150 * time.Millisecond)
		}
		if st.rename {
			tmp := file + ".tmp"
			os.WriteFile(tmp, []byte(c18File(st.state)), 0o644)
			os.Rename(tmp, file)
		} else {
			os.WriteFile(file, []byte(c18File(st.state)), 0o644)
		}
		res.Execs++
		if !converged(st.state) {
			sig := "watcher-did-not-converge"
			if st.rename {
				sig = "rename-replace-not-reloaded"
			}
			if st.pre != "" {
				sig = "watcher-dead-after-failed-reload"
			}
			addFound(res, "watcher", sig, fmt.Sprintf("real fsnotify watcher: after edit #%d (rename=%v, before it: %q) to %q the admitted set did not equal the file within 20 s", i, st.rename, st.pre, c18File(st.state)), fmt.Sprint("watcher-step-", i))
			return
		}
	}
	res.Notes = append(res.Notes, fmt.Sprintf("real fsnotify watcher converged on %d edits (in-place and rename)", len(steps)))
}

// c14E2E: the whole path — 1 s ticker -> OnTicker -> CLUSTER NODES probe on a pooled connection -> reply read by
// the event loop -> clusterChan -> REAL refresh goroutine -> next ticker round rebuilds pools and the slot table —
// with client traffic before and after; time only advances when the network is idle.
func c14E2E(name string, before, after []world.NodeSpec, key string, wantAddr string, write bool, bound int, alsoOK ...string) *world.Scenario {
	sc := &world.Scenario{Nodes: before, Bound: bound, Family: "end-to-end", Horizon: 600, RefreshLoop: true, CheckOwner: true,
		Faults: []world.Fault{{Kind: "nodes-change", Nodes: after}},
		Ticks:  []time.Duration{1100 * time.Millisecond, 1100 * time.Millisecond, 1100 * time.Millisecond, 1100 * time.Millisecond}}
	sc.TickGate = func(w *world.World) bool { return w.FaultsDone() && w.ProbesIdle() }
	mk := func() Req {
		if write {
			return SetReq(key, "v")
		}
		return GetReq(key)
	}
	r0, r1 := mk(), mk()
	cs := ClientOf([]Req{r0, r1}, false)
	cs.Chunks[1].WaitTicks, cs.Chunks[1].WaitReplies = 4, 1
	cs.Chunks[1].Gate = func(w *world.World) bool { return w.ProbesIdle() }
	sc.Clients = []world.ClientSpec{cs}
	sc.Name = fmt.Sprintf("C14/e2e/%s/write=%v/d%d", name, write, bound)
	sc.Check = func(w *world.World) []world.Violation {
		if w.RefreshDead {
			return []world.Violation{{Sig: "refresh-loop-exits-on:valid-text", Msg: "the refresh goroutine terminated during normal probing"}}
		}
		// the request sent after four idle ticker rounds ("a few seconds") must be routed by the new topology straight away
		for _, rec := range w.DataCmds("") {
			if rec.CR >= 1 && hasKey(rec.Args, key) {
				ok := rec.Addr == wantAddr
				for _, a := range alsoOK {
					if !write && rec.Addr == a {
						ok = true // a read may be served by a usable replica of the new owner
					}
				}
				if !ok {
					return []world.Violation{{Sig: "stale-or-wrong-table", Msg: fmt.Sprintf("four idle ticker rounds after the nodes started to report the new topology (%s), %q was still routed to %s instead of %s", name, rec.Raw, rec.Addr, wantAddr)}}
				}
				break
			}
		}
		return CheckStreams(w, StreamOpts{AnyError: func(ci, j int) bool { return j == 0 }})
	}
	return sc
}

// c14E2ELoad: the same under load: whenever the 1 s ticker fires, every node connection has a client request in flight
// (a second client sends one GET per master before each clock tick; the nodes answer them right after the tick). The
// topology probe must still go out and the change be adopted within the same number of rounds.
func c14E2ELoad(name string, before, after []world.NodeSpec, key string, wantAddr string, bound int) *world.Scenario {
	sc := c14E2E(name, before, after, key, wantAddr, true, bound)
	sc.Family = "end-to-end-under-load"
	sc.Name = fmt.Sprintf("C14/e2e-under-load/%s/d%d", name, bound)
	slot := world.SpecSlot([]byte(key))
	// loader keys: one per master and round, owned by the same master before and after the change
	pick := func(lo, hi, n int) []string {
		var ks []string
		for i := 0; len(ks) < n; i++ {
			k := fmt.Sprintf("ld%d", i)
			if s := world.SpecSlot([]byte(k)); s >= lo && s <= hi && s != slot {
				ks = append(ks, k)
			}
		}
		return ks
	}
	const rounds = 4
	la, lb, lc := pick(0, slot-1, rounds), pick(5461, 10922, rounds), pick(10923, 16383, rounds)
	holdOf := map[string]int{}
	loader := world.ClientSpec{}
	for k := 0; k < rounds; k++ {
		var data []byte
		for _, key := range []string{la[k], lb[k], lc[k]} {
			r := GetReq(key)
			data = append(data, r.Bytes...)
			loader.Reqs = append(loader.Reqs, r.Bytes)
			loader.Expect = append(loader.Expect, r.Expect)
			holdOf[key] = k + 1
		}
		kk := k
		loader.Chunks = append(loader.Chunks, world.Chunk{Data: data, WaitReplies: 3 * k, Gate: func(w *world.World) bool { return w.FaultsDone() && w.Ticks >= kk }})
	}
	sc.Clients = append(sc.Clients, loader)
	sc.Reply = func(w *world.World, bc *world.BConn, args [][]byte) ([]byte, int) {
		if len(args) == 2 {
			if h, ok := holdOf[string(args[1])]; ok {
				return world.ValueOf(args[1]), h
			}
		}
		return nil, 0
	}
	inner := sc.TickGate
	sc.TickGate = func(w *world.World) bool {
		if !inner(w) {
			return false
		}
		n := 0
		for _, rec := range w.DataCmds("") {
			if len(rec.Args) == 2 {
				if _, ok := holdOf[string(rec.Args[1])]; ok {
					n++
				}
			}
		}
		return n >= 3*(w.Ticks+1) || w.Ticks >= rounds
	}
	return sc
}

func c14E2EScenarios(tier string) []*world.Scenario {
	b := 1
	if tier == "thorough" {
		b = 3
	}
	var out []*world.Scenario
	base := T3()
	key := keysA[0] // slot in 0..5460
	slot := world.SpecSlot([]byte(key))
	// the slot's range moves from A to B
	moved := T3()
	moved[0].Slots = [][2]int{{0, slot - 1}}
	moved[1].Slots = [][2]int{{slot, 10922}}
	// failover: A fails, replica a1 is promoted, a2 follows a1
	fail := []world.NodeSpec{
		{Name: "aaa", Addr: AddrA, Slots: [][2]int{{0, 5460}}, Flags: "fail", Link: "disconnected"},
		{Name: "bbb", Addr: AddrB, Slots: [][2]int{{5461, 10922}}},
		{Name: "ccc", Addr: AddrC, Slots: [][2]int{{10923, 16383}}},
		{Name: "a1", Addr: AddrA1, Slots: [][2]int{{0, 5460}}},
		{Name: "a2", Addr: AddrA2, Master: "a1"},
		{Name: "b1", Addr: AddrB1, Master: "bbb"},
	}
	// a new master takes over the slot's range
	added := T3()
	added[0].Slots = [][2]int{{0, slot - 1}, {slot + 1, 5460}}
	added = append(added, world.NodeSpec{Name: "ddd", Addr: AddrD, Slots: [][2]int{{slot, slot}}})
	for _, write := range []bool{true, false} {
		out = append(out, c14E2E("range-moved", base, moved, key, AddrB, write, b, AddrB1))
		out = append(out, c14E2E("failover", base, fail, key, AddrA1, true, b))
		out = append(out, c14E2E("node-added", base, added, key, AddrD, write, b))
	}
	// a small configured size limit (the CLUSTER NODES reply, ~500 bytes, is larger than the client message limit of 256):
	// the limit concerns clients' requests and replies, the proxy's own topology probe is not subject to it
	{
		sc := c14E2E("range-moved", base, moved, key, AddrB, true, b)
		sc.MaxLen = 256
		sc.Family = "end-to-end-small-limit"
		sc.Name = fmt.Sprintf("C14/e2e-small-size-limit/range-moved/d%d", b)
		out = append(out, sc)
	}
	out = append(out, c14E2ELoad("range-moved", T3m(), func() []world.NodeSpec {
		m := T3m()
		m[0].Slots = [][2]int{{0, slot - 1}}
		m[1].Slots = [][2]int{{slot, 10922}}
		return m
	}(), key, AddrB, b))
	// the REAL boot path (serve() + engine.start(), seed pools): the FIRST description is adopted from a seed within the
	// same number of ticker rounds - one seed, a seed that refuses connections next to live ones, a replica as the only seed
	for _, c := range []struct {
		name   string
		seeds  []string
		refuse string
	}{{"one-seed", []string{AddrB}, ""}, {"dead-seed-first", []string{AddrD, AddrB}, AddrD}, {"replica-seed", []string{AddrA1}, ""}, {"all-nodes", []string{AddrA, AddrB, AddrC, AddrA1, AddrA2, AddrB1}, ""}} {
		sc := &world.Scenario{Nodes: T3(), Bound: 0, Family: "real-boot", Horizon: 900, RealBoot: true, Seeds: c.seeds, RefreshLoop: true, CheckOwner: true,
			IntnChoice: c.refuse != "", FreeKinds: []string{"intn"},
			Ticks: []time.Duration{1100 * time.Millisecond, 1100 * time.Millisecond, 1100 * time.Millisecond, 1100 * time.Millisecond}}
		if c.refuse != "" {
			sc.RefuseDial = map[string]int{c.refuse: -1}
			sc.RetryTimeoutMs = 10
			// the probe target is an enumerated choice only while the first description has not been adopted (two seeds)
			sc.IntnGate = func(w *world.World) bool { return len(core.VerifPools()) <= 2 }
		}
		sc.TickGate = func(w *world.World) bool { return w.ProbesIdle() }
		reqs := []Req{SetReq(keysA[0], "v"), SetReq(keysB[0], "v"), SetReq(keysC[0], "v")}
		cs := ClientOf(reqs, false)
		for j := range cs.Chunks {
			cs.Chunks[j].WaitTicks, cs.Chunks[j].WaitReplies = 4, j
			cs.Chunks[j].Gate = func(w *world.World) bool { return w.ProbesIdle() }
		}
		sc.Clients = []world.ClientSpec{cs}
		sc.Name = fmt.Sprintf("C14/real-boot/%s/d0", c.name)
		dead := c.refuse != ""
		sc.Observe = func(w *world.World) string {
			ok := 0
			for _, rec := range w.DataCmds("") {
				m := w.Sc.MasterOf(world.SpecSlot(rec.Args[1]))
				if m != nil && m.Addr == rec.Addr {
					ok++
				}
			}
			return fmt.Sprintf("%d", ok)
		}
		sc.Check = func(w *world.World) []world.Violation {
			if w.RefreshDead {
				return []world.Violation{{Sig: "refresh-loop-exits-on:valid-text", Msg: "the refresh goroutine terminated during the first probes"}}
			}
			if dead {
				return nil // judged over all probe-target choices (Final)
			}
			for _, rec := range w.DataCmds("") {
				m := w.Sc.MasterOf(world.SpecSlot(rec.Args[1]))
				if m == nil || m.Addr != rec.Addr {
					return []world.Violation{{Sig: "stale-or-wrong-table", Msg: fmt.Sprintf("four ticker rounds after start (seeds %v) %q was routed to %s", w.Sc.Seeds, rec.Raw, rec.Addr)}}
				}
			}
			return CheckStreams(w, StreamOpts{})
		}
		if dead {
			// which seed a round probes is the proxy's (random) choice: some choice sequence must get the table adopted
			sc.Final = func(obs map[string]int) []world.Violation {
				if obs["3"] > 0 {
					return nil
				}
				return []world.Violation{{Sig: "probe-stuck-on-unreachable-node", Msg: fmt.Sprintf("one seed refuses connections, the others are live: over ALL probe-target choices of four ticker rounds the first description was never adopted (outcomes %v)", obs)}}
			}
		}
		out = append(out, sc)
	}
	// reads after the move may go to B or its replica b1: judge writes only for the exact node, reads for the set
	out = append(out, c14DeadNode(tier))
	return out
}

// c14DeadNode: one node of the adopted table is unreachable (every dial refused) for several ticker rounds before the
// live nodes start to report the failover. The probe target is chosen per round (rand.Intn in the pinned code): over all
// outcomes of those choices after the change, the new topology must be adopted in at least one execution, i.e. the probe
// is not stuck on the unreachable node for good. (Cross-execution oracle: which node a round probes is the proxy's
// business; that no choice sequence at all reaches a live node again is a violation.)
func c14DeadNode(tier string) *world.Scenario {
	before := []world.NodeSpec{
		{Name: "aaa", Addr: AddrA, Slots: [][2]int{{0, 5460}}},
		{Name: "bbb", Addr: AddrB, Slots: [][2]int{{5461, 10922}}},
		{Name: "ccc", Addr: AddrC, Slots: [][2]int{{10923, 16383}}},
		{Name: "a1", Addr: AddrA1, Master: "aaa"},
	}
	after := []world.NodeSpec{
		{Name: "aaa", Addr: AddrA, Slots: [][2]int{{0, 5460}}, Flags: "fail", Link: "disconnected"},
		{Name: "bbb", Addr: AddrB, Slots: [][2]int{{5461, 10922}}},
		{Name: "ccc", Addr: AddrC, Slots: [][2]int{{10923, 16383}}},
		{Name: "a1", Addr: AddrA1, Slots: [][2]int{{0, 5460}}},
	}
	pre, post := 4, 3
	if tier == "thorough" {
		post = 4
	}
	var ticks []time.Duration
	for i := 0; i < pre+post; i++ {
		ticks = append(ticks, 1100*time.Millisecond)
	}
	sc := &world.Scenario{Nodes: before, Bound: 0, Family: "dead-node", Horizon: 900, RefreshLoop: true,
		RefuseDial: map[string]int{AddrA: -1}, RetryTimeoutMs: 10,
		Faults: []world.Fault{{Kind: "nodes-change", Nodes: after, AfterTicks: pre}}, Ticks: ticks,
		IntnChoice: true, FreeKinds: []string{"intn"}}
	sc.IntnGate = func(w *world.World) bool { return w.FaultsDone() }
	sc.TickGate = func(w *world.World) bool { return w.ProbesIdle() && (w.Ticks < pre || w.FaultsDone()) }
	key := keysA[0]
	r0, r1 := SetReq(keysB[0], "v"), SetReq(key, "v")
	cs := ClientOf([]Req{r0, r1}, false)
	cs.Chunks[1].WaitTicks, cs.Chunks[1].WaitReplies = pre+post, 1
	cs.Chunks[1].Gate = func(w *world.World) bool { return w.ProbesIdle() }
	cs.Expect[1] = nil
	sc.Clients = []world.ClientSpec{cs}
	sc.Name = fmt.Sprintf("C14/e2e/dead-node/%d+%d-rounds", pre, post)
	sc.Check = func(w *world.World) []world.Violation {
		if w.RefreshDead {
			return []world.Violation{{Sig: "refresh-loop-exits-on:valid-text", Msg: "the refresh goroutine terminated during normal probing"}}
		}
		return CheckStreams(w, StreamOpts{})
	}
	sc.Observe = func(w *world.World) string {
		for _, rec := range w.DataCmds("") {
			if hasKey(rec.Args, key) && rec.Addr == AddrA1 {
				return "adopted"
			}
		}
		return "stale"
	}
	sc.Final = func(obs map[string]int) []world.Violation {
		if obs["adopted"] == 0 {
			return []world.Violation{{Sig: "probe-stuck-on-unreachable-node", Msg: fmt.Sprintf("node %s of the adopted table is unreachable; %d ticker rounds after the live nodes started to report the failover, under EVERY outcome of the probe-target choices (%d executions) the proxy still routes slot %d by the old table: no live node is probed any more", AddrA, post, obs["stale"], world.SpecSlot([]byte(key)))}}
		}
		return nil
	}
	return sc
}

func parseInts(s string) []int {
	var out []int
	for _, f := range strings.Fields(strings.Trim(s, "[]")) {
		var v int
		fmt.Sscanf(f, "%d", &v)
		out = append(out, v)
	}
	return out
}

func init() {
	SeqReplay["C14"] = func(in string) (string, bool) {
		alpha := c14Alphabet()
		if strings.HasPrefix(in, "text:") {
			// a generated single text: re-judged as the histories [text], [base,text], [text,base]
			for _, t := range append(c14Texts(), c14Perms()...) {
				if "text:"+t.name != in {
					continue
				}
				out, bad := "", false
				for _, h := range [][]c14msg{{t}, {alpha[0], t}, {t, alpha[0]}} {
					idx := make([]int, len(h))
					for k := range h {
						idx[k] = k
					}
					sig, msg, state := c14Run(idx, h)
					out += fmt.Sprintf("history %s\nrefresh state: %s\nverdict: %s %s\n", histNames(idx, h), state, sig, msg)
					bad = bad || sig != ""
				}
				return out + fmt.Sprintf("text %q", t.raw), bad
			}
			return "unknown text " + in, false
		}
		h := parseInts(in)
		sig, msg, state := c14Run(h, alpha)
		return fmt.Sprintf("history %s\nrefresh state: %s\nverdict: %s %s", histNames(h, alpha), state, sig, msg), sig != ""
	}
	SeqReplay["C18"] = func(in string) (string, bool) {
		dir, _ := os.MkdirTemp("", "verif-c18-")
		defer os.RemoveAll(dir)
		h := parseInts(in)
		sig, msg := c18Run(dir, h)
		return fmt.Sprintf("history %s\nverdict: %s %s", c18Describe(h), sig, msg), sig != ""
	}
	register(&Check{ID: "C14", Level: "model_checking",
		Rule: "breadth-first search over histories of probe replies pushed through the REAL refresh goroutine (loopClusterNodes) and the real ticker: alphabet of 21 messages = 13 valid texts (base, the base text while INFO reports a2 loading / its master link down - which matters exactly when a2 had been dropped before -, failover with failed master, slot range moved, range split with migration markers, node added, replica removed, replica re-parented, replica disconnected, handshake/noaddr/failed extra nodes, new replicas whose INFO says loading / link down / dial error / ok, unclaimed range) + 8 unusable replies (nil bulk, two error replies, status, oversize > 163840, two usable nodes, 7-column lines, garbage text); depth 3 (thorough 4) with de-duplication on the canonical dump of the real refresh state; additionally ~100 generated single texts (one node line varied over 10 flag combinations x 2 link states x 5 slot-range shapes incl. migration markers and a master without slots, blank lines, missing cluster port, address without host) as histories [text], [base,text], [text,base]; an end-to-end family runs the whole path ticker -> probe -> reply -> channel -> real refresh goroutine -> ticker with client traffic (time advances only when the network is idle), including a table node that is unreachable for four rounds before the failover is reported, under every outcome of the probe-target choice afterwards (cross-execution oracle: some outcome adopts the new table); a barrier message makes 'all earlier replies processed' deterministic; oracle: after two ticker rounds of virtual time the slot->(master, replica set) map for ALL 16384 slots and the pool set/roles equal the reference built from the LAST VALID text, and the goroutine is still alive; states = distinct real refresh states reached; transitions = messages delivered",
		Seq:  c14Seq, Scenarios: c14E2EScenarios, BudgetQuick: 100, BudgetThorough: 1500,
		Assumptions: []string{"'within a few seconds' = within two ticker rounds of virtual time", "the INFO probe of newly discovered nodes is answered by a stub; the health monitor is not run", "memory-model races between the refresh goroutine and the loop are outside the technique (the barrier orders them)"}})
	register(&Check{ID: "C18", Level: "model_checking",
		Rule: "every history of 1..2 (thorough 1..3) successive whitelist file contents out of the 16 states {enable on/off} x subsets of {127.0.0.1,.2,.3}; each content is written to a scratch file and loaded through the real parseAuthIp exactly as the watcher does; then four clients (three listed candidates + one foreign address) connect through the real accept path and pipeline two requests; oracle: admitted set = set in the final file (everyone when disabled), rejected clients are closed with zero bytes and nothing of theirs reaches a backend; plus admission under every interleaving within the bound of an unlisted client whose request is already in its socket when it is accepted, next to a listed client; plus the real fsnotify watcher (LoopIPWhiteList on a scratch directory) driven through 7 edits, in place and by rename, with a 5 s convergence window; states = histories, transitions = file loads",
		Seq:  c18Seq, Scenarios: c18Scenarios, BudgetQuick: 100, BudgetThorough: 1500,
		Assumptions: []string{"histories call the reload function directly (deterministic); the fsnotify path is exercised by one fixed 7-edit sequence in real time"}})
}
