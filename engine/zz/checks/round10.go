package checks

// Families added after round 10 of the seeded changes (§8 of DESIGN.md): each is built from the generic world features
// (stalled / delayed replies, ticks, coalesced backend reads, cold handshakes, chunked client input) and is used by the
// check of the property it belongs to.

import (
	"fmt"
	"time"

	"rcproxy/core/zz_verif/world"
)

// TimeoutBatch: n requests to ONE node leave in one write batch, the node stays silent past the deadline; every one of them
// must be answered with the timeout error, in order, and the connection must serve a later request.
func TimeoutBatch(name string, n, bound int) *world.Scenario {
	var reqs []Req
	stall := map[string]bool{}
	for i := 0; i < n; i++ {
		r := GetReq(keysA[i])
		r.Expect = []byte(world.RErrTimeout)
		stall[keysA[i]] = true
		reqs = append(reqs, r)
	}
	cs := ClientOf(reqs, true)
	last := GetReq(keysC[3])
	cs.Chunks = append(cs.Chunks, world.Chunk{Data: last.Bytes, WaitTicks: 1})
	cs.Reqs = append(cs.Reqs, last.Bytes)
	cs.Expect = append(cs.Expect, last.Expect)
	sc := &world.Scenario{Nodes: T3m(), Bound: bound, Horizon: 400, TimeoutMs: 100, Clients: []world.ClientSpec{cs},
		Ticks: []time.Duration{150 * time.Millisecond}, Family: "timeout-of-a-whole-batch"}
	sc.TickGate = func(w *world.World) bool { return len(w.DataCmds(AddrA)) >= n }
	sc.Reply = func(w *world.World, bc *world.BConn, args [][]byte) ([]byte, int) {
		for k := range stall {
			if hasKey(args, k) {
				return world.DefaultReply(world.Lower(args[0]), args), -1
			}
		}
		return nil, 0
	}
	sc.Name = fmt.Sprintf("%s/timeout-batch/n%d/d%d", name, n, bound)
	sc.Check = func(w *world.World) []world.Violation { return CheckStreams(w, StreamOpts{}) }
	return sc
}

// GoneBeforeDeadline: a client whose request waits for a silent node disconnects before the deadline; a second client with a
// request behind it on the same node connection must still get its timeout error, and the proxy must keep serving.
func GoneBeforeDeadline(name string, rst bool, bound int) *world.Scenario {
	ra := GetReq(keysA[0])
	ca := ClientOf([]Req{ra}, true)
	ca.Expect = [][]byte{nil}
	ca.CloseAfter, ca.CloseRST = 1, rst
	rb := GetReq(keysA[1])
	rb.Expect = []byte(world.RErrTimeout)
	cb := ClientOf([]Req{rb}, true)
	last := GetReq(keysC[3])
	cb.Chunks = append(cb.Chunks, world.Chunk{Data: last.Bytes, WaitTicks: 1})
	cb.Reqs = append(cb.Reqs, last.Bytes)
	cb.Expect = append(cb.Expect, last.Expect)
	// the second client speaks once the first one's request has reached the node, so that it queues behind it
	cb.Chunks[0].Gate = func(w *world.World) bool { return len(w.DataCmds(AddrA)) >= 1 }
	sc := &world.Scenario{Nodes: T3m(), Bound: bound, Horizon: 400, TimeoutMs: 100, Clients: []world.ClientSpec{ca, cb},
		Ticks: []time.Duration{150 * time.Millisecond}, Family: "client-gone-before-deadline"}
	sc.TickGate = func(w *world.World) bool {
		return len(w.DataCmds(AddrA)) >= 2 && w.Clients[0].PeerClosed && w.Clients[0].ProxyClosed
	}
	sc.Reply = func(w *world.World, bc *world.BConn, args [][]byte) ([]byte, int) {
		if hasKey(args, keysA[0]) || hasKey(args, keysA[1]) {
			return world.DefaultReply(world.Lower(args[0]), args), -1
		}
		return nil, 0
	}
	sc.Name = fmt.Sprintf("%s/client-gone-before-deadline/rst=%v/d%d", name, rst, bound)
	sc.Check = func(w *world.World) []world.Violation {
		return CheckStreams(w, StreamOpts{AllowMissing: false, AnyError: func(ci, j int) bool { return false }})
	}
	return sc
}

// SlowHops: a redirect whose two hops are each answered inside the request timeout while their sum exceeds it; the deadline
// of the re-sent request starts when it is re-sent, so the client gets the final node's reply. A second client's PING is
// the event that makes the loop look at its deadlines between the hops.
func SlowHops(name string, ask bool, bound int) *world.Scenario {
	key := keysA[0]
	r := GetReq(key)
	c1 := ClientOf([]Req{r}, true)
	p := PingReq()
	c2 := world.ClientSpec{Chunks: []world.Chunk{{Data: p.Bytes, WaitTicks: 2}}, Reqs: [][]byte{p.Bytes}, Expect: [][]byte{p.Expect}}
	sc := &world.Scenario{Nodes: T3m(), Bound: bound, Horizon: 500, TimeoutMs: 100, Clients: []world.ClientSpec{c1, c2},
		Ticks: []time.Duration{70 * time.Millisecond, 70 * time.Millisecond, 20 * time.Millisecond}, Family: "slow-hops"}
	sc.TickGate = func(w *world.World) bool {
		switch w.Ticks {
		case 0:
			return len(w.DataCmds(AddrA)) >= 1
		case 1:
			return len(w.DataCmds(AddrB)) >= 1
		default:
			return w.Clients[1].NReplies >= 1
		}
	}
	slot := world.SpecSlot([]byte(key))
	sc.Reply = func(w *world.World, bc *world.BConn, args [][]byte) ([]byte, int) {
		if world.Lower(args[0]) == "asking" {
			return nil, 0
		}
		if !hasKey(args, key) {
			return nil, 0
		}
		if bc.Addr == AddrA {
			if ask {
				return askTo(slot, AddrB), 1
			}
			return movedTo(slot, AddrB), 1
		}
		return world.DefaultReply(world.Lower(args[0]), args), 3
	}
	sc.Name = fmt.Sprintf("%s/slow-hops/ask=%v/d%d", name, ask, bound)
	sc.Check = func(w *world.World) []world.Violation { return CheckStreams(w, StreamOpts{}) }
	return sc
}

// ColdSplit: a split multi-key request is the FIRST request on node connections that begin with a handshake (AUTH with a
// password, READONLY on replica connections); the handshake replies and the fragment reply arrive in one read.
func ColdSplit(name, kind, pw string, replicas bool, bound int) *world.Scenario {
	var r Req
	switch kind {
	case "mget":
		r = MGetReq(keysA[0], keysB[0])
	case "del":
		r = DelReq(keysA[0], keysB[0])
	default:
		r = MSetReq(keysA[0], "v", keysB[0], "w")
	}
	cs := ClientOf([]Req{r, GetReq(keysA[1])}, false)
	cs.Chunks[1].WaitReplies = 1
	sc := &world.Scenario{Nodes: T3m(), Bound: bound, Horizon: 400, Clients: []world.ClientSpec{cs}, Password: pw,
		CoalesceAll: true, HandshakeCuts: []int{}, Family: "split-request-first-on-handshaking-connection"}
	if replicas {
		sc.Nodes = T3()
	}
	sc.Name = fmt.Sprintf("%s/cold-split/%s/pw=%v/replicas=%v/d%d", name, kind, pw != "", replicas, bound)
	sc.Check = func(w *world.World) []world.Violation { return CheckStreams(w, StreamOpts{}) }
	return sc
}

// MultiThenSame: a multi-slot request followed in the same pipeline by requests to one of its nodes; every backend read
// carries all replies that are ready, so the non-final fragment's reply is followed by further replies in its read.
func MultiThenSame(name, kind string, tail int, bound int) *world.Scenario {
	var r Req
	switch kind {
	case "mget":
		r = MGetReq(keysA[0], keysB[0])
	case "del":
		r = DelReq(keysA[0], keysB[0])
	default:
		r = MSetReq(keysA[0], "v", keysB[0], "w")
	}
	reqs := []Req{r}
	for i := 0; i < tail; i++ {
		reqs = append(reqs, GetReq(keysA[1+i]))
	}
	c1 := ClientOf(reqs, true)
	c2 := ClientOf([]Req{GetReq(keysC[1]), GetReq(keysC[2])}, true) // never touches the nodes of the split request: nothing else makes their connections readable again
	sc := &world.Scenario{Nodes: T3m(), Bound: bound, Horizon: 400, Clients: []world.ClientSpec{c1, c2},
		CoalesceAll: true, Family: "fragment-reply-followed-by-replies-in-its-read"}
	sc.Name = fmt.Sprintf("%s/multi-then-same/%s/tail%d/d%d", name, kind, tail, bound)
	sc.Check = func(w *world.World) []world.Violation { return CheckStreams(w, StreamOpts{}) }
	return sc
}

// HeaderCut: the client's second request arrives in two pieces, the first of which ends inside the array-header line or the
// first bulk-header line; the second piece only arrives after the proxy has read the first.
func HeaderCut(name string, req Req, cut int, readCap int, bound int) *world.Scenario {
	p := PingReq()
	cs := ClientOf([]Req{p, req, p}, false)
	cs.Chunks = []world.Chunk{{Data: p.Bytes}, {Data: req.Bytes[:cut], WaitReplies: 1},
		{Data: append(append([]byte{}, req.Bytes[cut:]...), p.Bytes...)}}
	cs.Chunks[2].Gate = func(w *world.World) bool { return len(w.Clients[0].Sock.Rx) == 0 }
	sc := &world.Scenario{Nodes: T3m(), Bound: bound, Horizon: 300, Clients: []world.ClientSpec{cs}, ReadCap: readCap,
		Family: "request-cut-inside-a-header-line"}
	sc.Name = fmt.Sprintf("%s/header-cut/%s/at%d/cap%d/d%d", name, req.Kind, cut, readCap, bound)
	sc.Check = func(w *world.World) []world.Violation { return CheckStreams(w, StreamOpts{}) }
	return sc
}

// HugeIncomplete: one client buffers `size` bytes of an incomplete (legal) request and hangs up; the oversized buffers go
// back to their pools and the proxy keeps serving a second client.
func HugeIncomplete(name string, size int, bound int) *world.Scenario {
	head := []byte(fmt.Sprintf("*3\r\n$3\r\nset\r\n$1\r\nk\r\n$%d\r\n", size+1000))
	data := append(head, []byte(patterned("H", size))...)
	c1 := world.ClientSpec{Chunks: []world.Chunk{{Data: data}}, CloseAfter: 1}
	p := PingReq()
	c2 := ClientOf([]Req{p, GetReq(keysA[0])}, true)
	c2.ConnectGate = func(w *world.World) bool { return w.Clients[0].ProxyClosed }
	sc := &world.Scenario{Nodes: T3m(), Bound: bound, Horizon: 6000, Clients: []world.ClientSpec{c1, c2},
		ReadCap: 1 << 20, WriteCap: 65536, MaxLen: 128 << 20, NoVariant: true, Family: "huge-incomplete-request"}
	sc.Name = fmt.Sprintf("%s/huge-incomplete/%d/d%d", name, size, bound)
	sc.Check = func(w *world.World) []world.Violation { return CheckStreams(w, StreamOpts{}) }
	return sc
}

// TerseReplies: legal replies of minimal size - a status / error line with empty text, alone and nested, null array, nested
// empty array - each followed by an ordinary request to the same node (one chunk / one chunk per request; every backend
// read carries all ready replies or one).
func TerseReplies(name string, bound int) []*world.Scenario {
	var out []*world.Scenario
	shapes := [][]byte{[]byte("+\r\n"), []byte("-\r\n"), []byte("*2\r\n+\r\n-\r\n"), []byte("*-1\r\n"), []byte("*1\r\n*0\r\n"), []byte("*2\r\n:0\r\n+\r\n"), []byte("-E\r\n"), []byte("+O\r\n")}
	for i, shape := range shapes {
		for _, one := range []bool{true, false} {
			for _, co := range []bool{false, true} {
				shape := shape
				r := GetReq(keysA[9])
				r.Kind, r.Expect = "TERSE", shape
				reqs := []Req{GetReq(keysA[0]), r, GetReq(keysA[1]), GetReq(keysB[0])}
				sc := &world.Scenario{Nodes: T3m(), Bound: bound, Horizon: 300, Family: "terse-replies", CoalesceAll: co}
				sc.Clients = []world.ClientSpec{ClientOf(reqs, one)}
				sc.Reply = func(w *world.World, bc *world.BConn, args [][]byte) ([]byte, int) {
					if hasKey(args, keysA[9]) {
						return shape, 0
					}
					return nil, 0
				}
				sc.Name = fmt.Sprintf("%s/terse-replies/shape%d/one=%v/coalesced=%v/d%d", name, i, one, co, bound)
				sc.Check = func(w *world.World) []world.Violation { return CheckStreams(w, StreamOpts{}) }
				out = append(out, sc)
			}
		}
	}
	return out
}

// ConfiguredLimit: the proxy is started through the REAL core.Run with msg_max_length_limit = limit exactly as configured
// (0 = not configured: 6 MiB). A SET just inside the limit is forwarded and served, one just above it is answered with the
// too-large error and never forwarded, and the connection stays usable.
func ConfiguredLimit(name string, limit int, bound int) *world.Scenario {
	eff := limit
	if eff < 1 {
		eff = 6 << 20
	}
	mk := func(total int) Req {
		// "*3\r\n$3\r\nset\r\n$2\r\nk1\r\n$<n>\r\n<v>\r\n": pick n so that the whole request is `total` bytes
		for n := total; n >= 0; n-- {
			r := SetReq(keysA[0], patterned("L", n))
			if len(r.Bytes) == total {
				return r
			}
			if len(r.Bytes) < total {
				break
			}
		}
		return SetReq(keysA[0], "v")
	}
	inside, above := mk(eff), mk(eff+1)
	above.Expect = []byte(world.RErrReqLarge)
	above.Local = true
	reqs := []Req{GetReq(keysB[0]), inside, above, GetReq(keysC[0])}
	cs := ClientOf(reqs, false)
	for j := range cs.Chunks {
		cs.Chunks[j].WaitTicks, cs.Chunks[j].WaitReplies = 3, j
		cs.Chunks[j].Gate = func(w *world.World) bool { return w.ProbesIdle() }
	}
	sc := &world.Scenario{Nodes: T3m(), Bound: bound, Family: "configured-limit-through-real-Run", Horizon: 3000, RealBoot: true, RealRun: true,
		Seeds: []string{AddrA, AddrB, AddrC}, RefreshLoop: true, CheckOwner: true, MaxLen: limit, NoVariant: true,
		Ticks: []time.Duration{1100 * time.Millisecond, 1100 * time.Millisecond, 1100 * time.Millisecond}}
	sc.TickGate = func(w *world.World) bool { return w.ProbesIdle() }
	sc.Clients = []world.ClientSpec{cs}
	sc.Name = fmt.Sprintf("%s/configured-limit/%d/d%d", name, limit, bound)
	sc.Check = func(w *world.World) []world.Violation {
		for _, rec := range w.DataCmds("") {
			if len(rec.Raw) == len(above.Bytes) {
				return []world.Violation{{Sig: "oversize-request-forwarded", Msg: fmt.Sprintf("configured limit %d: a request of %d bytes was forwarded", limit, len(rec.Raw))}}
			}
		}
		return CheckStreams(w, StreamOpts{})
	}
	return sc
}
