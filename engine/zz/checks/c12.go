package checks

import (
	"bytes"
	"encoding/hex"
	"encoding/json"
	"fmt"
	"math/big"
	"os"
	"os/exec"
	"sort"
	"strings"
	"time"

	"rcproxy/core/zz_verif/explore"
	"rcproxy/core/zz_verif/world"
)

// C12: no client input can crash the proxy, disturb others or reach a backend malformed.

const (
	clsComplete   = iota // k complete requests, nothing else
	clsIncomplete        // k complete requests + a proper prefix of a valid request
	clsMalformed         // k complete requests + bytes no valid request starts with
	clsEmptyArray        // ... + "*0" / "*-n" line: Redis skips it silently; error / close / skip are all acceptable
)

// classify parses the offender's stream with the strict (Redis server) request grammar.
func classify(s []byte) (k int, cls int) {
	for len(s) > 0 {
		_, n, st := world.ParseRequestStrict(s)
		switch st {
		case world.ParseOK:
			k++
			s = s[n:]
			continue
		case world.ParseIncomplete:
			return k, clsIncomplete
		default:
			if s[0] == '*' {
				if i := bytes.Index(s, []byte("\r\n")); i > 0 {
					l := s[1:i]
					if string(l) == "0" || (len(l) > 1 && l[0] == '-' && allDigits(l[1:])) {
						return k, clsEmptyArray
					}
				}
			}
			return k, clsMalformed
		}
	}
	return k, clsComplete
}

func allDigits(b []byte) bool {
	for _, c := range b {
		if c < '0' || c > '9' {
			return false
		}
	}
	return len(b) > 0
}

func c12Scenario(name string, s []byte, cuts []int) *world.Scenario {
	sc := &world.Scenario{Nodes: T3m(), Bound: 0, Family: "input", Horizon: 3000, InputEnum: true, ReadCap: 64, WriteCap: 64}
	off := world.ClientSpec{Chunks: SplitAt(s, cuts...), Reqs: [][]byte{s}}
	w1, w2 := GetReq(keysB[7]), MGetReq(keysA[7], keysC[7])
	wit := ClientOf([]Req{w1, w2}, false)
	nch := len(off.Chunks)
	wit.Chunks[1].Gate = func(w *world.World) bool { return w.Clients[0].DeliveredChunks() >= nch || w.Clients[0].Sock.Closed }
	wit.Chunks[1].WaitReplies = 1
	sc.Clients = []world.ClientSpec{off, wit}
	sc.Name = fmt.Sprintf("C12/%s/%s/cuts%v", name, hex.EncodeToString(s), cuts)
	if len(sc.Name) > 300 {
		sc.Name = sc.Name[:300]
	}
	sc.CrashSig = "crash"
	for _, ln := range bytes.Split(s, []byte("\r\n")) {
		if len(ln) > 1 && ln[0] == '*' {
			l := ln[1:]
			wrap := 0
			for _, ch := range l {
				wrap = wrap*10 + int(ch-'0') // the proxy's own arithmetic: silently wraps around
			}
			if string(l) == "-1" || (allDigits(l) && wrap < 1) {
				sc.CrashSig = "nil-request-panic" // an array count below 1 somewhere in the stream
			}
		}
	}
	sc.Check = func(w *world.World) []world.Violation { return c12Oracle(w, s) }
	return sc
}

func c12Oracle(w *world.World, s []byte) []world.Violation {
	var vs []world.Violation
	for _, bc := range w.BConns {
		if bc.Malformed != "" {
			sig := "backend-received-malformed"
			m := bc.Malformed
			switch {
			case strings.Contains(m, "$-"):
				sig = "forwarded-negative-bulk-length"
			case strings.Contains(m, "$0") && !strings.Contains(m, "$0\r\n"), strings.Contains(m, "$+"), strings.Contains(m, "*0"), strings.Contains(m, "*+"):
				sig = "forwarded-noncanonical-length"
			}
			vs = append(vs, world.Violation{Sig: sig, Msg: fmt.Sprintf("client sent %q; node %s received %q, which a Redis server rejects as a protocol error", s, bc.Addr, m)})
			return vs
		}
	}
	// the witness is served correctly
	wit := w.Clients[1]
	rs, rest, mal := world.SplitReplies(wit.Received)
	if mal || len(rest) > 0 || len(rs) != 2 || !bytes.Equal(rs[0], wit.Spec.Expect[0]) || !bytes.Equal(rs[1], wit.Spec.Expect[1]) || wit.ProxyClosed {
		return []world.Violation{{Sig: "witness-disturbed", Msg: fmt.Sprintf("another client sent %q; the witness connection received %q (closed=%v), expected %q", s, wit.Received, wit.ProxyClosed, bytes.Join(wit.Spec.Expect, nil))}}
	}
	off := w.Clients[0]
	k, cls := classify(s)
	ors, orest, omal := world.SplitReplies(off.Received)
	if omal || len(orest) > 0 {
		return []world.Violation{{Sig: "corrupt", Msg: fmt.Sprintf("input %q: reply stream %q is not RESP", s, off.Received)}}
	}
	nerr := 0
	for _, r := range ors {
		if world.IsError(r) {
			nerr++
		}
	}
	switch cls {
	case clsComplete:
		if off.ProxyClosed && !bytes.Contains(bytes.ToLower(s), []byte("quit")) {
			if nerr == 0 {
				return []world.Violation{{Sig: "valid-stream-closed", Msg: fmt.Sprintf("input %q is %d well-formed requests but the proxy closed the connection without an error reply (received %q)", s, k, off.Received)}}
			}
		} else if len(ors) != k && !off.ProxyClosed {
			return []world.Violation{{Sig: "reply-count", Msg: fmt.Sprintf("input %q is %d well-formed requests; %d replies: %q", s, k, len(ors), off.Received)}}
		}
	case clsIncomplete:
		if off.ProxyClosed && nerr == 0 && len(ors) <= k {
			// closing on a proper prefix is only legitimate together with an error for an earlier request
			return []world.Violation{{Sig: "prefix-treated-as-error", Msg: fmt.Sprintf("input %q ends in a proper prefix of a valid request, yet the proxy closed the connection", s)}}
		}
		if len(ors) > k {
			return []world.Violation{{Sig: "prefix-answered", Msg: fmt.Sprintf("input %q holds %d complete requests but %d replies were sent: %q", s, k, len(ors), off.Received)}}
		}
	case clsMalformed:
		// only judged once the malformation is evident from complete lines: a parser that works line by line
		// may legitimately keep waiting while the current line / bulk terminator is still open
		definitive := false
		if j := bytes.LastIndexByte(s, '\n'); j >= 0 {
			_, c2 := classify(s[:j+1])
			definitive = c2 == clsMalformed
		}
		if definitive && !off.ProxyClosed && nerr == 0 {
			return []world.Violation{{Sig: "stalled-on-unviable-residue", Msg: fmt.Sprintf("input %q can never become a valid request, yet the connection is neither closed nor answered with an error (received %q)", s, off.Received)}}
		}
	case clsEmptyArray:
	}
	return nil
}

var c12Alpha = []byte{'*', '$', '-', '0', '1', '2', '9', '\r', '\n', 'g'}

func c12Corpus() [][]byte {
	a, b, c := keysA[0], keysB[0], keysC[0]
	return [][]byte{
		world.Cmd("get", a),
		world.Cmd("SET", b, "v\r\n"),
		world.Cmd("mget", a, b, c),
		world.Cmd("del", a, c),
		world.Cmd("mset", a, "1", b, ""),
		world.Cmd("ping"),
		world.Cmd("eval", "return 1", "1", c),
		world.Cmd("hmset", a, "f", "v", "g", "w"),
		world.Cmd("auth", "x"),
		world.Cmd("lrange", b, "0", "-1"),
		world.Cmd("quit"),
		append(world.Cmd("get", a), world.Cmd("get", b)...),
	}
}

var c12FieldValues = []string{"", "0", "-1", "-2", "00", "01", "+1", "1a", " 1", "1 ", "2147483648", "9223372036854775808", "100000000000000000000", "-0"}
var c12BombCounts = []string{"999999999", "2147483647", "50000000"}

// fields returns [start,end) of every count / length field (after '*' or '$' at line start).
func fields(s []byte) [][2]int {
	var out [][2]int
	pos := 0
	for pos < len(s) {
		if s[pos] == '*' || s[pos] == '$' {
			e := bytes.Index(s[pos:], []byte("\r\n"))
			if e < 0 {
				break
			}
			out = append(out, [2]int{pos + 1, pos + e})
			l, ok := 0, true
			for _, ch := range s[pos+1 : pos+e] {
				if ch < '0' || ch > '9' {
					ok = false
				}
				l = l*10 + int(ch-'0')
			}
			if s[pos] == '$' && ok {
				pos += e + 2 + l + 2
			} else {
				pos += e + 2
			}
			continue
		}
		break
	}
	return out
}

func c12Gen(tier string, shard, nshards int, emit func(sc *world.Scenario) bool) {
	thorough := tier == "thorough"
	idx := 0
	stop := false
	// add builds the scenario only when it belongs to this shard
	push := func(name string, s []byte, cuts []int) {
		if stop {
			return
		}
		idx++
		if idx%nshards != shard {
			return
		}
		if !emit(c12Scenario(name, s, cuts)) {
			stop = true
		}
	}
	emitRaw := func(sc *world.Scenario) bool {
		if stop {
			return false
		}
		idx++
		if idx%nshards != shard {
			return true
		}
		sc.Name += "/pw"
		if !emit(sc) {
			stop = true
			return false
		}
		return true
	}
	// (a) all byte strings up to length L over the alphabet
	L := 4
	if thorough {
		L = 6
	}
	var gen func(cur []byte)
	gen = func(cur []byte) {
		if len(cur) > 0 {
			push("enum", append([]byte{}, cur...), nil)
		}
		if len(cur) == L || stop {
			return
		}
		for _, c := range c12Alpha {
			gen(append(cur, c))
		}
	}
	gen(nil)
	// (i) round 10: a legal but huge request that never completes, then the client hangs up (buffers of the top size class)
	{
		idx++
		if idx%nshards == shard && !stop {
			if !emit(HugeIncomplete("C12", 33<<20+4096, 0)) {
				return
			}
		}
	}
	// (h) a password is configured: AUTH with arguments of every length 0..20 and much longer (right and wrong ones)
	for n := 0; n <= 20; n++ {
		for _, base := range []string{"secretsecretsecretsecret", "xxxxxxxxxxxxxxxxxxxxxxxx"} {
			sc := c12Scenario(fmt.Sprintf("auth-len%d-%c", n, base[0]), world.Cmd("auth", base[:n]), nil)
			sc.Password = "secret"
			if !emitRaw(sc) {
				return
			}
		}
	}
	for _, n := range []int{64, 300, 5000} {
		sc := c12Scenario(fmt.Sprintf("auth-len%d", n), world.Cmd("auth", strings.Repeat("s", n)), nil)
		sc.Password = "secret"
		if !emitRaw(sc) {
			return
		}
	}
	// (g) LONG invalid inputs (what the proxy logs about a rejected input must not depend on its size): non-RESP lines and
	// garbage of 1000..70000 bytes, a bad bulk length followed by kilobytes of payload, an HTTP request
	for _, n := range []int{1000, 1023, 1024, 1025, 1026, 2047, 2049, 3000, 4097, 70000} {
		push(fmt.Sprintf("long-line%d", n), append(bytes.Repeat([]byte("x"), n), '\r', '\n'), nil)
		push(fmt.Sprintf("long-garbage%d", n), append([]byte("*2\r\n$3\r\nget\r\n$-5\r\n"), bytes.Repeat([]byte("p"), n)...), nil)
		push(fmt.Sprintf("long-after-valid%d", n), append(append(world.Cmd("get", keysA[0]), bytes.Repeat([]byte("\x01z"), n/2)...), '\r', '\n'), []int{5})
	}
	push("http", []byte("GET /index.html HTTP/1.1\r\nHost: example.org\r\nUser-Agent: "+strings.Repeat("a", 1500)+"\r\n\r\n"), nil)
	// (f) well-formed requests with unusual content
	for oi, req := range c12Odd() {
		push(fmt.Sprintf("odd%d", oi), req, nil)
		if len(req) < 600 {
			push(fmt.Sprintf("odd%dx2", oi), append(append([]byte{}, req...), req...), []int{len(req) / 2})
		}
	}
	// (b) single-position mutations and field replacements of valid requests; (c) every proper prefix
	for ci, req := range c12Corpus() {
		add := func(kind string, s []byte) {
			push(fmt.Sprintf("corpus%d-%s", ci, kind), s, nil)
			if thorough || kind == "field" {
				for cut := 1; cut < len(s); cut++ {
					if thorough || cut%5 == 1 {
						push(fmt.Sprintf("corpus%d-%s", ci, kind), s, []int{cut})
					}
				}
			}
		}
		for p := 0; p < len(req); p++ {
			add("del", append(append([]byte{}, req[:p]...), req[p+1:]...))
			for _, ch := range c12Alpha {
				if thorough || ch == '\r' || ch == '-' || ch == '0' || ch == 'g' || ch == '*' {
					add("ins", append(append(append([]byte{}, req[:p]...), ch), req[p:]...))
					if ch != req[p] {
						m := append([]byte{}, req...)
						m[p] = ch
						add("sub", m)
					}
				}
			}
			push(fmt.Sprintf("corpus%d-prefix", ci), append([]byte{}, req[:p]...), nil)
		}
		for _, f := range fields(req) {
			vals := append([]string{}, c12FieldValues...)
			// lengths that wrap around 2^64 to exactly the genuine value (and twice around)
			if orig, ok := new(big.Int).SetString(string(req[f[0]:f[1]]), 10); ok {
				two64 := new(big.Int).Lsh(big.NewInt(1), 64)
				vals = append(vals, new(big.Int).Add(two64, orig).String(), new(big.Int).Add(new(big.Int).Lsh(two64, 1), orig).String(),
					new(big.Int).Add(new(big.Int).Lsh(big.NewInt(1), 63), orig).String(), new(big.Int).Add(new(big.Int).Lsh(big.NewInt(1), 32), orig).String())
			}
			for _, v := range vals {
				if req[f[0]-1] == '*' && (v == "2147483648" || (len(v) == 10 && v > "0001048576")) {
					continue // array counts that pre-size gigabytes are run in the address-space-limited child (bomb family)
				}
				m := append(append(append([]byte{}, req[:f[0]]...), v...), req[f[1]:]...)
				add("field", m)
			}
		}
	}
}

// c12Odd: well-formed requests with unusual content: awkward keys (empty, lone / reversed / nested braces, CR LF NUL and
// high bytes, a key that looks like a request), missing and surplus arguments of every decoding branch, odd MSET pair
// lists, EVAL key counts that are absent / zero / negative / not a number / larger than the argument list, command
// names that are empty, very long or contain control bytes, argument counts around 256 and key lists of 1000 entries.
// Each is a complete request: exactly one reply, no crash, witness undisturbed, nothing malformed at a node.
func c12Odd() [][]byte {
	var out [][]byte
	keys := []string{"", "{", "}", "{}", "a}{b}", "}a{b}", "}{", "{a", "a}", "{{a}}", "{a}{b}", "}}{{", "\r\n", "a\r\nb", "\x00", "\xff\xfe{\x80}",
		strings.Repeat("k", 300), "*1\r\n$4\r\nping\r\n", "{" + strings.Repeat("t", 70) + "}x"}
	k2 := keysB[3]
	for _, k := range keys {
		out = append(out, world.Cmd("get", k), world.Cmd("set", k, "v"), world.Cmd("mget", k, k2), world.Cmd("del", k2, k), world.Cmd("mset", k, "v", k2, "w"),
			world.Cmd("eval", "return 1", "1", k), world.Cmd("evalsha", "abc", "1", k, "arg"), world.Cmd("hset", k, "f", "v"), world.Cmd("mget", k), world.Cmd("del", k, k, k))
	}
	for _, name := range []string{"get", "set", "mget", "del", "mset", "eval", "evalsha", "ping", "quit", "auth", "hmset", "lrange", "zrangebyscore", "sort", "info", ""} {
		out = append(out, world.Cmd(name))
		out = append(out, world.Cmd(name, "a"))
		out = append(out, world.Cmd(name, "a", "b", "c"))
	}
	out = append(out, world.Cmd("mset", "a", "1", "b"), world.Cmd("mset", "a", "1", "b", "2", "c"),
		world.Cmd("eval", "s", "1"), world.Cmd("eval", "s", "0"), world.Cmd("eval", "s", "0", "k"), world.Cmd("eval", "s", "abc", "k"), world.Cmd("eval", "s", "-1", "k"),
		world.Cmd("eval", "s", "99999999999999999999", "k"), world.Cmd("eval", "s", "5", "k"), world.Cmd("eval", "s", "2", keysA[0], keysC[0]), world.Cmd("evalsha", "x", "", "k"),
		world.Cmd("GET\r\n", "a"), world.Cmd("ge\x00t", "a"), world.Cmd(strings.Repeat("g", 300), "a"), world.Cmd("g", "a"), world.Cmd("gEt", "a"), world.Cmd("g\xc3\xa9t", "a"))
	many := func(name string, n int, pair bool) []byte {
		args := []string{name}
		for i := 0; i < n; i++ {
			args = append(args, fmt.Sprintf("k%d", i))
			if pair {
				args = append(args, "v")
			}
		}
		return world.Cmd(args...)
	}
	for _, n := range []int{15, 16, 17, 127, 128, 255, 256, 257, 258, 1000} {
		out = append(out, many("get", n, false), many("ping", n, false), many("mget", n, false), many("del", n, false), many("hmset", n, false), many("eval", n, false))
		if n <= 258 {
			out = append(out, many("mset", n, true))
		}
	}
	return out
}

// c12FromName rebuilds a scenario from "C12/<label>/<hex input>/cuts[..]".
func c12FromName(name string) *world.Scenario {
	parts := strings.Split(name, "/")
	if len(parts) < 4 || parts[0] != "C12" {
		return nil
	}
	if parts[1] == "huge-incomplete" {
		var n int
		fmt.Sscanf(parts[2], "%d", &n)
		return HugeIncomplete("C12", n, 0)
	}
	in, err := hex.DecodeString(parts[2])
	if strings.HasPrefix(parts[1], "odd") {
		// long inputs: the name is truncated, the input is rebuilt from its index
		var oi int
		fmt.Sscanf(strings.TrimSuffix(strings.TrimPrefix(parts[1], "odd"), "x2"), "%d", &oi)
		if odd := c12Odd(); oi < len(odd) {
			in, err = odd[oi], nil
			if strings.HasSuffix(parts[1], "x2") {
				in = append(append([]byte{}, in...), in...)
				return c12Scenario(parts[1], in, []int{len(in) / 4})
			}
			return c12Scenario(parts[1], in, nil)
		}
	}
	if err != nil {
		return nil
	}
	var cuts []int
	for _, f := range strings.Fields(strings.Trim(strings.TrimPrefix(parts[3], "cuts"), "[]")) {
		var v int
		fmt.Sscanf(f, "%d", &v)
		cuts = append(cuts, v)
	}
	sc := c12Scenario(parts[1], in, cuts)
	if strings.HasPrefix(parts[1], "bomb") {
		sc.Family = "bomb"
	}
	if strings.HasSuffix(name, "/pw") {
		sc.Password = "secret"
		sc.Name += "/pw"
	}
	return sc
}

// bomb inputs are run in a child process under an address-space limit: an allocation bomb that kills
// the child is a proxy crash, not a harness failure.
func c12Bombs() []*world.Scenario {
	var out []*world.Scenario
	for ci, req := range c12Corpus()[:3] {
		f := fields(req)[0]
		for _, v := range c12BombCounts {
			m := append(append(append([]byte{}, req[:f[0]]...), v...), req[f[1]:]...)
			sc := c12Scenario(fmt.Sprintf("bomb%d", ci), m, nil)
			sc.Family = "bomb"
			out = append(out, sc)
			sc2 := c12Scenario(fmt.Sprintf("bomb%d", ci), m, []int{len(v) + 1})
			sc2.Family = "bomb"
			out = append(out, sc2)
		}
	}
	return out
}

// RunOne executes the default schedule of one named bomb scenario (child process side).
func RunOneC12(name string) int {
	for _, sc := range c12Bombs() {
		if sc.Name == name {
			w := world.Execute(sc, func(string, int) int { return 0 })
			vs := explore.Judge(sc, w)
			b, _ := json.Marshal(vs)
			fmt.Println("RESULT " + string(b))
			return 0
		}
	}
	fmt.Println("RESULT-NOTFOUND")
	return 3
}

func c12Seq(tier string, shard, n int, deadline time.Time, res *Result) {
	if shard != 0 {
		return
	}
	for _, sc := range c12Bombs() {
		cmd := exec.Command(os.Args[0], "one", "-id", "C12", "-name", sc.Name, "-rlimit-mb", "4096")
		cmd.Env = append(os.Environ(), "GOMAXPROCS=2", "GOMEMLIMIT=off", "GOGC=100")
		outb, err := cmd.CombinedOutput()
		res.Execs++
		res.Scenarios++
		res.States++
		res.Transitions++
		out := string(outb)
		if i := strings.Index(out, "RESULT "); i >= 0 {
			var vs []world.Violation
			line := out[i+7:]
			if j := strings.IndexByte(line, '\n'); j >= 0 {
				line = line[:j]
			}
			json.Unmarshal([]byte(line), &vs)
			for _, v := range vs {
				addFound(res, "bomb", v.Sig, v.Msg, sc.Name)
			}
			continue
		}
		excerpt := out
		if len(excerpt) > 400 {
			excerpt = excerpt[:400]
		}
		if strings.Contains(out, "out of memory") || strings.Contains(out, "cannot allocate") || strings.Contains(out, "makeslice") || strings.Contains(out, "makemap") {
			addFound(res, "bomb", "allocation-bomb", fmt.Sprintf("input %q makes the proxy process die while pre-sizing its tables (address space limited to 4 GiB): %v: %s", sc.Clients[0].Reqs[0], err, excerpt), sc.Name)
		} else {
			res.Notes = append(res.Notes, fmt.Sprintf("bomb child for %s ended without a result (%v): %s", sc.Name, err, excerpt))
			addFound(res, "bomb", "allocation-bomb", fmt.Sprintf("input %q: child process died (%v): %s", sc.Clients[0].Reqs[0], err, excerpt), sc.Name)
		}
	}
}

// c12Interleave: the offender's connection is closed for invalid input while valid requests of its own are still
// unanswered at the nodes; a witness then uses the same node connections (and whatever objects the offender's requests
// left behind); the offender's late replies arrive before, between and after the witness's. The witness must be served
// its own data, under every interleaving within the bound.
func c12Interleave(tier string) []*world.Scenario {
	b := 2
	if tier == "thorough" {
		b = 4
	}
	var out []*world.Scenario
	garbage := map[string]string{"inline": "PING\r\n", "zero-count": "*0\r\n", "bulk-first": "$3\r\nfoo\r\n", "neg-bulk": "*2\r\n$3\r\nget\r\n$-1\r\n", "text": "GARBAGE\r\n"}
	var gn []string
	for n := range garbage {
		gn = append(gn, n)
	}
	sort.Strings(gn)
	for _, valid := range []string{"get", "mget", "get-get"} {
		for _, g := range gn {
			if tier != "thorough" && valid != "get" && g != "inline" && g != "zero-count" {
				continue
			}
			held := []string{keysA[6]}
			var data []byte
			switch valid {
			case "get":
				data = GetReq(keysA[6]).Bytes
			case "mget":
				data = MGetReq(keysA[6], keysC[6]).Bytes
				held = append(held, keysC[6])
			default:
				data = append(append([]byte{}, GetReq(keysA[6]).Bytes...), GetReq(keysB[6]).Bytes...)
				held = append(held, keysB[6])
			}
			off := world.ClientSpec{Chunks: []world.Chunk{{Data: append(append([]byte{}, data...), garbage[g]...)}}, Reqs: [][]byte{data}}
			w1, w2, w3 := GetReq(keysA[8]), GetReq(keysB[8]), MGetReq(keysA[9], keysC[9])
			wit := ClientOf([]Req{w1, w2, w3}, true)
			wit.Chunks[0].Gate = func(w *world.World) bool { return w.Clients[0].Sock.Closed }
			sc := &world.Scenario{Nodes: T3m(), Bound: b, Family: "offender-with-requests-in-flight", Horizon: 300, ReadCap: 256, WriteCap: 256,
				Clients: []world.ClientSpec{off, wit}, Ticks: []time.Duration{time.Millisecond}, ReuseFds: true}
			hk := map[string]bool{}
			for _, k := range held {
				hk[k] = true
			}
			sc.Reply = func(w *world.World, bc *world.BConn, args [][]byte) ([]byte, int) {
				if len(args) > 1 && hk[string(args[1])] {
					return world.DefaultReply(world.Lower(args[0]), args), 1 // the offender's replies come late
				}
				return nil, 0
			}
			sc.TickGate = func(w *world.World) bool { return len(w.Clients) > 1 && w.Clients[1].DeliveredChunks() >= 1 }
			sc.Name = fmt.Sprintf("C12/in-flight/%s+%s/d%d", valid, g, b)
			sc.Check = func(w *world.World) []world.Violation {
				if vs := BackendsWellFormed(w); len(vs) > 0 {
					return vs
				}
				wc := w.Clients[1]
				rs, rest, mal := world.SplitReplies(wc.Received)
				ok := !mal && len(rest) == 0 && len(rs) == 3 && !wc.ProxyClosed
				for j := 0; ok && j < 3; j++ {
					ok = bytes.Equal(rs[j], wc.Spec.Expect[j])
				}
				if !ok {
					return []world.Violation{{Sig: "witness-disturbed", Msg: fmt.Sprintf("a client was closed for invalid input with requests in flight; the witness connection then received %q (closed=%v), expected %q", wc.Received, wc.ProxyClosed, bytes.Join(wc.Spec.Expect, nil))}}
				}
				if !w.Clients[0].ProxyClosed {
					return []world.Violation{{Sig: "stalled-on-unviable-residue", Msg: "the offender was neither closed nor answered with an error"}}
				}
				return nil
			}
			out = append(out, sc)
		}
	}
	return out
}

func init() {
	register(&Check{ID: "C12", Level: "model_checking",
		Rule:      "(a) EVERY byte string up to length 4 (thorough 6) over {* $ - 0 1 2 9 CR LF g}; (b) for 12 valid requests EVERY single-position deletion, insertion and substitution (quick: from a 5-symbol subset; thorough: full alphabet, each also in every single-cut segmentation) and EVERY replacement of every count/length field by {empty, 0, -1, -2, 00, 01, +1, 1a, ' 1', '1 ', 2^31, 2^63, 10^20, -0}; (c) every proper prefix; (d) huge array counts in a child process under a 4 GiB address-space limit; each input is sent by one client while a witness client does GET and split MGET round trips before and after; oracle: no panic / fatal / livelock, witness replies correct, every byte sequence any node received parses under the strict Redis request grammar, and the offending connection ends closed, answered with an error, or holding a proper prefix of a valid request; distinct = observable outcomes; (e) offender closed for invalid input (inline command, *0, bulk first, null bulk, text) while valid requests of its own (GET, split MGET, two GETs) are unanswered at the nodes, a witness then using the same node connections, the offender's late replies arriving at every position within the deviation bound",
		Scenarios: c12Interleave,
		Gen:       c12Gen, FromName: c12FromName, Seq: c12Seq, BudgetQuick: 100, BudgetThorough: 1500,
		Assumptions: []string{"strict grammar = what a Redis server accepts from RESP clients without answering 'Protocol error' (canonical decimal lengths, count >= 1); '*0' / '*-n' lines, which Redis skips silently, may be skipped, answered with an error or lead to a close"}})
}
