package checks

import (
	"bytes"
	"fmt"
	"strings"
	"time"

	"rcproxy/core/zz_verif/world"
)

// ---------------------------------------------------------------------------------------------
// C11: backend errors reach the client as errors, never as success or a crash.

var c11Errors = []string{
	"-ERR value is not an integer or out of range\r\n",
	"-WRONGTYPE Operation against a key holding the wrong kind of value\r\n",
	"-LOADING Redis is loading the dataset in memory\r\n",
	"-CLUSTERDOWN The cluster is down\r\n",
	"-TRYAGAIN Multiple keys request during rehashing of slot\r\n",
	"-CROSSSLOT Keys in request don't hash to the same slot\r\n",
	"-READONLY You can't write against a read only replica.\r\n",
	"-OOM command not allowed when used memory > 'maxmemory'.\r\n",
	"-MASTERDOWN Link with MASTER is down and replica-serve-stale-data is set to 'no'.\r\n",
	"-BUSY Redis is busy running a script.\r\n",
	"-ERR invalid expire time in 'setex' command\r\n",
	"-ERR invalid cursor\r\n",
	"-NOSCRIPT No matching script. Please use EVAL.\r\n",
	"-ERR Client sent something that looks like AUTH\r\n",
	"-NOPERM this user has no permissions to run the 'get' command\r\n",
	"-MISCONF Redis is configured to save RDB snapshots\r\n",
	"-ERR\r\n",
	"-E\r\n",
	// long error lines (the real MISCONF text, a Lua script error, 128 / 1100 / 5000 bytes)
	"-MISCONF Redis is configured to save RDB snapshots, but it's currently unable to persist to disk. Commands that may modify the data set are disabled, because this instance is configured to report errors during writes if RDB snapshotting fails (stop-writes-on-bgsave-error option). Please check the Redis logs for details about the RDB error.\r\n",
	"-ERR Error running script (call to f_5a8b1c2d3e4f5a6b7c8d9e0f1a2b3c4d5e6f7a8b): @user_script:1: user_script:1: attempt to compare nil with number \r\n",
	"-ERR " + strings.Repeat("x", 128-7) + "\r\n",
	"-ERR " + strings.Repeat("y", 1100) + "\r\n",
	"-ERR " + strings.Repeat("z", 5000) + "\r\n",
}

func c11Scenario(kind string, nfrag int, errNodes []string, errIdx int, bound int) *world.Scenario {
	sc := &world.Scenario{Nodes: T3m(), Bound: bound, Horizon: 300, Family: "split-" + kind}
	ka, kb, kc := keysA[0], keysB[0], keysC[0]
	keys := []string{ka, kb, kc}[:nfrag]
	if nfrag == 1 {
		keys = []string{"{" + ka + "}x", "{" + ka + "}y"} // two keys, one slot, one fragment
	}
	var r Req
	switch kind {
	case "get":
		r = GetReq(ka)
		sc.Family = "single"
	case "mget":
		r = MGetReq(keys...)
	case "del":
		r = DelReq(keys...)
	case "mset":
		var kv []string
		for _, k := range keys {
			kv = append(kv, k, "v")
		}
		r = MSetReq(kv...)
	}
	errm := map[string]bool{}
	for _, a := range errNodes {
		errm[a] = true
	}
	e := c11Errors[errIdx]
	follow := GetReq(keysB[3])
	cs := ClientOf([]Req{r, follow}, false)
	cs.Chunks[1].WaitReplies = 1
	if kind == "get" {
		cs.Expect[0] = []byte(e)
	}
	sc.Clients = []world.ClientSpec{cs}
	sc.OrderSites = []string{"core/server/server_c.go:OnCReact:Body"}
	sc.Reply = func(w *world.World, bc *world.BConn, args [][]byte) ([]byte, int) {
		if errm[bc.Addr] && world.Lower(args[0]) == kind {
			return []byte(e), 0
		}
		return nil, 0
	}
	sc.CrashSig = kind + "-fragment-error-panics"
	sc.Name = fmt.Sprintf("C11/%s%d/err@%s/%s/d%d", kind, nfrag, strings.Join(errNodes, "+"), strings.Fields(e)[0], bound)
	sc.Check = func(w *world.World) []world.Violation {
		vs := CheckStreams(w, StreamOpts{AnyError: func(ci, j int) bool { return j == 0 && kind != "get" }})
		for i := range vs {
			c := w.Clients[0]
			rs, _, _ := world.SplitReplies(c.Received)
			if len(rs) > 0 && !world.IsError(rs[0]) {
				switch {
				case kind == "get":
					vs[i].Sig = "single-key-error-altered"
				case kind == "del" && rs[0][0] == ':':
					vs[i].Sig = "del-fragment-error-becomes-integer"
				case kind == "mset" && bytes.Equal(rs[0], []byte(world.ROK)):
					vs[i].Sig = "mset-fragment-error-ok"
				case kind == "mget" && rs[0][0] == '*':
					vs[i].Sig = "mget-fragment-error-becomes-array"
				}
			} else if len(rs) > 0 && kind == "get" && !bytes.Equal(rs[0], []byte(e)) {
				vs[i].Sig = "single-key-error-altered"
			} else if len(rs) == 0 {
				vs[i].Sig = kind + "-fragment-error-stalls"
			} else if vs[i].Sig == "missing-tail" {
				vs[i].Sig = "later-request-unanswered-after-" + kind + "-error"
			}
		}
		return vs
	}
	return sc
}

func subsets(xs []string) [][]string {
	var out [][]string
	for m := 1; m < 1<<len(xs); m++ {
		var s []string
		for i, x := range xs {
			if m&(1<<i) != 0 {
				s = append(s, x)
			}
		}
		out = append(out, s)
	}
	return out
}

func c11Scenarios(tier string) []*world.Scenario {
	var out []*world.Scenario
	for ei := range c11Errors {
		sc := c11Scenario("get", 1, []string{AddrA}, ei, -1)
		if len(c11Errors[ei]) > 100 {
			// long error lines: once delivered in one read (every interleaving), once through a 64-byte read buffer (bounded)
			sc.ReadCap, sc.WriteCap = 65536, 65536
			sc.Name += "/one-read"
			out = append(out, sc)
			sc = c11Scenario("get", 1, []string{AddrA}, ei, 2)
			sc.Name += "/64-byte-reads"
			out = append(out, sc)
			for _, kind := range []string{"mget", "del", "mset"} {
				for _, nf := range []int{1, 2} {
					sm := c11Scenario(kind, nf, []string{AddrA}, ei, 2)
					sm.ReadCap, sm.WriteCap = 65536, 65536
					sm.Name += "/one-read"
					out = append(out, sm)
				}
			}
			continue
		}
		out = append(out, sc)
	}
	errs := []int{0, 1, 2, 3, 10, 16}
	if tier == "thorough" {
		errs = nil
		for i := range c11Errors {
			errs = append(errs, i)
		}
	}
	// multi-key commands whose keys all live in ONE slot travel as a single fragment: the error is the whole reply
	for _, kind := range []string{"mget", "del", "mset"} {
		for _, ei := range errs {
			out = append(out, c11Scenario(kind, 1, []string{AddrA}, ei, -1))
		}
	}
	for _, kind := range []string{"mget", "del", "mset"} {
		for nf := 2; nf <= 3; nf++ {
			for _, sub := range subsets([]string{AddrA, AddrB, AddrC}[:nf]) {
				for k, ei := range errs {
					b := -1
					if nf == 3 && tier != "thorough" {
						if k >= 3 {
							continue // quick tier: three error texts on three-fragment requests
						}
						b = 3
					}
					out = append(out, c11Scenario(kind, nf, sub, ei, b))
				}
			}
		}
	}
	// the error is the FIRST reply on a cold backend connection that starts with a handshake (AUTH when a password is
	// configured, READONLY on replica connections) and arrives in the same read as the handshake replies
	for _, cfg := range []struct {
		pw       string
		replicas bool
	}{{"secret", false}, {"", true}, {"secret", true}} {
		for _, ei := range errs {
			for _, kind := range []string{"get", "mget"} {
				nf := 1
				if kind == "mget" {
					nf = 2
				}
				sc := c11Scenario(kind, nf, []string{AddrA, AddrA1, AddrA2}, ei, 1)
				if cfg.replicas {
					sc.Nodes = T3()
				}
				sc.Password = cfg.pw
				sc.CoalesceAll = true
				sc.HandshakeCuts = []int{}
				sc.Family = "error-first-on-handshaking-connection"
				sc.Name += fmt.Sprintf("/cold-handshake/pw=%v/replicas=%v", cfg.pw != "", cfg.replicas)
				out = append(out, sc)
			}
		}
	}
	// two fragments of one request on ONE node connection, answered in one read: the first with a redirect, the second with
	// an error (and the other way round); afterwards requests to the redirect's target and to the node itself
	for _, kind := range []string{"mget", "del", "mset"} {
		for _, order := range []string{"redirect-first", "error-first"} {
			for _, rd := range []string{"moved", "ask"} {
				ka, ka2 := keyWith("k", 0, 0), keyWith("k", 0, 1)
				if order == "error-first" {
					ka, ka2 = ka2, ka
				}
				// fragments are written in slot order of the map walk (ascending under the harness): make sure which is first
				first, second := ka, ka2
				if world.SpecSlot([]byte(first)) > world.SpecSlot([]byte(second)) {
					first, second = second, first
				}
				redirKey, errKey := first, second
				if order == "error-first" {
					redirKey, errKey = second, first
				}
				var r Req
				switch kind {
				case "mget":
					r = MGetReq(first, second)
				case "del":
					r = DelReq(first, second)
				default:
					r = MSetReq(first, "v", second, "w")
				}
				e := c11Errors[3]
				f1, f2, f3 := GetReq(keysB[3]), GetReq(keysA[4]), GetReq(keysB[4])
				f1.Expect = []byte(c11Errors[1]) // the target node answers this one with an error of its own: verbatim
				cs := ClientOf([]Req{r, f1, f2, f3}, false)
				for j := 1; j < len(cs.Chunks); j++ {
					cs.Chunks[j].WaitReplies = j
				}
				sc := &world.Scenario{Nodes: T3m(), Bound: 2, Horizon: 300, Family: "redirect-and-error-in-one-read", CoalesceAll: true, ReadCap: 256, WriteCap: 256}
				sc.Clients = []world.ClientSpec{cs}
				kb3 := keysB[3]
				sc.Reply = func(w *world.World, bc *world.BConn, args [][]byte) ([]byte, int) {
					switch {
					case bc.Addr == AddrA && hasKey(args, redirKey) && world.Lower(args[0]) == kind:
						if rd == "moved" {
							return movedTo(world.SpecSlot([]byte(redirKey)), AddrB), 0
						}
						return askTo(world.SpecSlot([]byte(redirKey)), AddrB), 0
					case bc.Addr == AddrA && hasKey(args, errKey) && world.Lower(args[0]) == kind:
						return []byte(e), 0
					case hasKey(args, kb3) && world.Lower(args[0]) == "get":
						return []byte(c11Errors[1]), 0
					}
					return nil, 0
				}
				sc.CrashSig = kind + "-fragment-error-panics"
				sc.Name = fmt.Sprintf("C11/%s/two-fragments-one-connection/%s-%s/d2", kind, order, rd)
				sc.Check = func(w *world.World) []world.Violation {
					vs := CheckStreams(w, StreamOpts{AnyError: func(ci, j int) bool { return j == 0 }})
					for i := range vs {
						if vs[i].Sig == "missing-tail" {
							vs[i].Sig = "later-request-unanswered-after-" + kind + "-error"
						} else {
							vs[i].Sig = "single-key-error-altered"
						}
					}
					return vs
				}
				out = append(out, sc)
			}
		}
	}
	// the slow-log is enabled (threshold 1 ms) and the error reply takes 5 ms: error lines that consist of a code only, with
	// and without trailing text, long ones - the bookkeeping about slow or failed requests must not change the reply
	c11Errors2 := []string{"-E\r\n", "-ERR\r\n", "-MYERR\r\n", "-\r\n", "- \r\n", "-ERR \r\n", c11Errors[1], c11Errors[18]}
	for _, e := range c11Errors2 {
		for _, kind := range []string{"get", "mget", "del"} {
			e := e
			nf := 1
			if kind != "get" {
				nf = 2
			}
			sc := c11Scenario(kind, nf, []string{AddrA}, 0, 1)
			sc.SlowlogMs = 1
			sc.Ticks = []time.Duration{5 * time.Millisecond}
			sc.TickGate = func(w *world.World) bool { return len(w.DataCmds(AddrA)) >= 1 }
			kd := kind
			sc.Reply = func(w *world.World, bc *world.BConn, args [][]byte) ([]byte, int) {
				if bc.Addr == AddrA && world.Lower(args[0]) == kd && w.Ticks == 0 {
					return []byte(e), 1
				}
				return nil, 0
			}
			if kind == "get" {
				sc.Clients[0].Expect[0] = []byte(e)
			}
			sc.Family = "error-with-slowlog"
			sc.Name = fmt.Sprintf("C11/%s/slowlog-1ms/error-%q/d1", kind, strings.TrimSpace(e))
			inner := sc.Check
			sc.Check = func(w *world.World) []world.Violation {
				vs := inner(w)
				for i := range vs {
					if kd == "get" && vs[i].Sig != kd+"-fragment-error-stalls" {
						vs[i].Sig = "single-key-error-altered"
					}
				}
				return vs
			}
			out = append(out, sc)
		}
	}
	// a request timeout is configured: one fragment of a split request is answered with an error (the request fails at
	// once, its object is recycled), the sibling fragment is never answered; the NEXT request reuses the object and is in
	// flight when the sibling's deadline passes; its own reply is a backend error that must arrive verbatim
	for _, kind := range []string{"mget", "del", "mset"} {
		for _, ei := range []int{1, 2} {
			ka, kb, kc := keysA[0], keysB[0], keysC[0]
			var r Req
			switch kind {
			case "mget":
				r = MGetReq(ka, kb)
			case "del":
				r = DelReq(ka, kb)
			default:
				r = MSetReq(ka, "v", kb, "w")
			}
			e1, e2 := c11Errors[0], c11Errors[ei]
			next := GetReq(kc)
			next.Expect = []byte(e2)
			last := GetReq(keysC[3])
			cs := ClientOf([]Req{r, next, last}, false)
			cs.Chunks[1].WaitReplies, cs.Chunks[1].WaitTicks = 1, 1
			cs.Chunks[2].WaitReplies, cs.Chunks[2].WaitTicks = 2, 3
			wake := ClientOf([]Req{PingReq()}, true)
			wake.Chunks[0].WaitTicks = 2
			sc := &world.Scenario{Nodes: T3m(), Bound: 2, Horizon: 300, Family: "error-then-sibling-deadline", TimeoutMs: 100,
				Ticks: []time.Duration{60 * time.Millisecond, 60 * time.Millisecond, time.Millisecond}, Clients: []world.ClientSpec{cs, wake}}
			sc.TickGate = func(w *world.World) bool {
				switch w.Ticks {
				case 0:
					return w.Clients[0].NReplies >= 1 // the split request has been failed
				case 1:
					return len(w.DataCmds(AddrC)) >= 1 // the next request is at its node
				default:
					return len(w.Clients) > 1 && w.Clients[1].NReplies >= 1 // the loop has run once after the sibling's deadline
				}
			}
			sc.Reply = func(w *world.World, bc *world.BConn, args [][]byte) ([]byte, int) {
				switch {
				case bc.Addr == AddrA && hasKey(args, ka):
					return []byte(e1), 0
				case bc.Addr == AddrB && hasKey(args, kb):
					return world.DefaultReply(world.Lower(args[0]), args), -1
				case bc.Addr == AddrC && hasKey(args, kc):
					return []byte(e2), 3
				}
				return nil, 0
			}
			sc.Name = fmt.Sprintf("C11/%s-error-then-sibling-deadline/%s/d2", kind, strings.Fields(e2)[0])
			sc.Check = func(w *world.World) []world.Violation {
				vs := CheckStreams(w, StreamOpts{AnyError: func(ci, j int) bool { return ci == 0 && j == 0 }})
				for i := range vs {
					vs[i].Sig = "single-key-error-altered"
				}
				return vs
			}
			out = append(out, sc)
		}
	}
	// the error reply shares a backend read with the reply of ANOTHER client whose connection goes away while its reply is
	// delivered (QUIT pipelined behind its request / it hung up / it reset): the error must still reach its own client
	for _, how := range []string{"quit", "fin", "rst"} {
		for _, ei := range []int{0, 3} {
			for _, victimKind := range []string{"get", "mget"} {
				b := 2
				if tier == "thorough" {
					b = 4
				}
				out = append(out, c11Neighbour(how, victimKind, ei, b))
			}
		}
	}
	return out
}

func c11Neighbour(how, victimKind string, errIdx, bound int) *world.Scenario {
	e := c11Errors[errIdx]
	sc := &world.Scenario{Nodes: T3m(), Bound: bound, Horizon: 300, Family: "neighbour-closes-in-same-read", CoalesceChoice: true, FreeKinds: []string{"coalesce"}}
	// client 0 (the neighbour) is ahead of client 1 on node A's connection
	n0 := []Req{GetReq(keysA[1])}
	if how == "quit" {
		n0 = append(n0, QuitReq())
	}
	cs0 := ClientOf(n0, true)
	if how != "quit" {
		cs0.CloseAfter, cs0.CloseRST = 1, how == "rst"
	}
	var v Req
	if victimKind == "get" {
		v = GetReq(keysA[0])
		v.Expect = []byte(e)
	} else {
		v = MGetReq(keysA[0], keysB[0])
		v.Expect = nil
	}
	follow := GetReq(keysB[3])
	cs1 := ClientOf([]Req{v, follow}, false)
	cs1.Chunks[1].WaitReplies = 1
	// the victim's request is only sent once the neighbour's is on its way, so that it queues behind it
	cs1.Chunks[0].Gate = func(w *world.World) bool { return len(w.DataCmds(AddrA)) >= 1 }
	sc.Clients = []world.ClientSpec{cs0, cs1}
	bad := keysA[0]
	held := keysA[1]
	sc.Reply = func(w *world.World, bc *world.BConn, args [][]byte) ([]byte, int) {
		if bc.Addr == AddrA && hasKey(args, bad) {
			return []byte(e), 0
		}
		if hasKey(args, held) {
			return world.ValueOf([]byte(held)), 1 // released by the clock tick, when the victim's error reply is ready behind it
		}
		return nil, 0
	}
	sc.Ticks = []time.Duration{time.Millisecond}
	sc.TickGate = func(w *world.World) bool { return len(w.DataCmds(AddrA)) >= 2 }
	sc.CrashSig = victimKind + "-fragment-error-panics"
	sc.Name = fmt.Sprintf("C11/neighbour-%s/%s/%s/d%d", how, victimKind, strings.Fields(e)[0], bound)
	sc.Check = func(w *world.World) []world.Violation {
		c := w.Clients[1]
		rs, rest, malformed := world.SplitReplies(c.Received)
		if malformed || len(rest) > 0 {
			return []world.Violation{{Sig: "corrupt", Msg: fmt.Sprintf("victim stream %q", c.Received)}}
		}
		if len(rs) == 0 {
			return []world.Violation{{Sig: victimKind + "-fragment-error-stalls", Msg: fmt.Sprintf("node A answered %q for the victim's request in the same read as the reply of a client whose connection went away (%s); the victim never got a reply", e, how)}}
		}
		if victimKind == "get" && !bytes.Equal(rs[0], []byte(e)) {
			return []world.Violation{{Sig: "single-key-error-altered", Msg: fmt.Sprintf("victim received %q for a request the node answered with %q", rs[0], e)}}
		}
		if victimKind != "get" && !world.IsError(rs[0]) {
			return []world.Violation{{Sig: "mget-fragment-error-becomes-array", Msg: fmt.Sprintf("victim received %q although node A answered its fragment with %q", rs[0], e)}}
		}
		if len(rs) < 2 {
			return []world.Violation{{Sig: "later-request-unanswered-after-" + victimKind + "-error", Msg: fmt.Sprintf("victim's follow-up request was never answered (stream %q)", c.Received)}}
		}
		if !bytes.Equal(rs[1], follow.Expect) || len(rs) > 2 {
			return []world.Violation{{Sig: "corrupt", Msg: fmt.Sprintf("victim stream %q", c.Received)}}
		}
		return nil
	}
	return sc
}

// ---------------------------------------------------------------------------------------------
// C13: MOVED and ASK redirects are followed transparently and terminate.

type redirCase struct {
	name  string
	reply func(key string) world.ReplyFn
	final string // node whose reply the client must get ("" = none: any error acceptable, must terminate)
	ask   bool
}

func movedTo(slot int, addr string) []byte {
	return []byte(fmt.Sprintf("-MOVED %d %s\r\n", slot, addr))
}
func askTo(slot int, addr string) []byte { return []byte(fmt.Sprintf("-ASK %d %s\r\n", slot, addr)) }

func hasKey(args [][]byte, key string) bool {
	for _, a := range args[1:] {
		if string(a) == key {
			return true
		}
	}
	return false
}

var c13Cases = []redirCase{
	{name: "moved-A-to-B", final: AddrB, reply: func(key string) world.ReplyFn {
		slot := world.SpecSlot([]byte(key))
		return func(w *world.World, bc *world.BConn, args [][]byte) ([]byte, int) {
			if hasKey(args, key) && bc.Addr == AddrA {
				return movedTo(slot, AddrB), 0
			}
			return nil, 0
		}
	}},
	{name: "ask-A-to-B", final: AddrB, ask: true, reply: func(key string) world.ReplyFn {
		slot := world.SpecSlot([]byte(key))
		return func(w *world.World, bc *world.BConn, args [][]byte) ([]byte, int) {
			if !hasKey(args, key) {
				return nil, 0
			}
			if bc.Addr == AddrA {
				return askTo(slot, AddrB), 0
			}
			if bc.Addr == AddrB {
				// importing node: serves the key only when the command was preceded by ASKING
				n := len(bc.Log)
				if n > 0 && world.Lower(bc.Log[n-1].Args[0]) == "asking" {
					return nil, 0
				}
				return movedTo(slot, AddrA), 0
			}
			return nil, 0
		}
	}},
	{name: "moved-chain-A-B-C", final: AddrC, reply: func(key string) world.ReplyFn {
		slot := world.SpecSlot([]byte(key))
		return func(w *world.World, bc *world.BConn, args [][]byte) ([]byte, int) {
			if !hasKey(args, key) {
				return nil, 0
			}
			switch bc.Addr {
			case AddrA:
				return movedTo(slot, AddrB), 0
			case AddrB:
				return movedTo(slot, AddrC), 0
			}
			return nil, 0
		}
	}},
	{name: "moved-mutual-A-B", final: "", reply: func(key string) world.ReplyFn {
		slot := world.SpecSlot([]byte(key))
		return func(w *world.World, bc *world.BConn, args [][]byte) ([]byte, int) {
			if !hasKey(args, key) {
				return nil, 0
			}
			switch bc.Addr {
			case AddrA:
				return movedTo(slot, AddrB), 0
			case AddrB:
				return movedTo(slot, AddrA), 0
			}
			return nil, 0
		}
	}},
	{name: "ask-mutual-A-B", final: "", reply: func(key string) world.ReplyFn {
		slot := world.SpecSlot([]byte(key))
		return func(w *world.World, bc *world.BConn, args [][]byte) ([]byte, int) {
			if !hasKey(args, key) {
				return nil, 0
			}
			switch bc.Addr {
			case AddrA:
				return askTo(slot, AddrB), 0
			case AddrB:
				return askTo(slot, AddrA), 0
			}
			return nil, 0
		}
	}},
	{name: "ask-to-self", final: "", reply: func(key string) world.ReplyFn {
		slot := world.SpecSlot([]byte(key))
		return func(w *world.World, bc *world.BConn, args [][]byte) ([]byte, int) {
			if hasKey(args, key) && bc.Addr == AddrA {
				return askTo(slot, AddrA), 0
			}
			return nil, 0
		}
	}},
	{name: "moved-then-ask-loop", final: "", reply: func(key string) world.ReplyFn {
		slot := world.SpecSlot([]byte(key))
		return func(w *world.World, bc *world.BConn, args [][]byte) ([]byte, int) {
			if !hasKey(args, key) {
				return nil, 0
			}
			switch bc.Addr {
			case AddrA:
				return movedTo(slot, AddrB), 0
			case AddrB:
				return askTo(slot, AddrC), 0
			case AddrC:
				return askTo(slot, AddrB), 0
			}
			return nil, 0
		}
	}},
	{name: "moved-to-self", final: "", reply: func(key string) world.ReplyFn {
		slot := world.SpecSlot([]byte(key))
		return func(w *world.World, bc *world.BConn, args [][]byte) ([]byte, int) {
			if hasKey(args, key) && bc.Addr == AddrA {
				return movedTo(slot, AddrA), 0
			}
			return nil, 0
		}
	}},
}

func c13Scenario(rc redirCase, kind string, pos int, bound int) *world.Scenario {
	return c13ScenarioKey(rc, kind, pos, bound, keysA[5])
}

func c13ScenarioKey(rc redirCase, kind string, pos int, bound int, key string) *world.Scenario {
	sc := &world.Scenario{Nodes: T3m(), Bound: bound, Horizon: 70, Family: rc.name}
	var reqs []Req
	others := []Req{GetReq(keysB[1]), GetReq(keysA[2]), GetReq(keysC[1])}
	var r Req
	switch kind {
	case "get":
		r = GetReq(key)
	case "mget":
		r = MGetReq(keysB[2], key)
	case "del":
		r = DelReq(key, keysC[2])
	}
	oi := 0
	for j := 0; j < 3; j++ {
		if j == pos {
			reqs = append(reqs, r)
		} else {
			reqs = append(reqs, others[oi])
			oi++
		}
	}
	sc.Clients = []world.ClientSpec{ClientOf(reqs, true)}
	sc.Reply = rc.reply(key)
	sc.Name = fmt.Sprintf("C13/%s/%s@%d/d%d", rc.name, kind, pos, bound)
	if key != keysA[5] {
		sc.Name += fmt.Sprintf("/slot%d", world.SpecSlot([]byte(key)))
	}
	sc.Check = func(w *world.World) []world.Violation {
		// count re-sends of the redirected request
		n := 0
		for _, rec := range w.Cmds {
			if hasKey(rec.Args, key) {
				n++
			}
		}
		var vs []world.Violation
		if rc.ask {
			// the command must be immediately preceded by ASKING on the target connection
			for _, bc := range w.BConns {
				if bc.Addr != AddrB {
					continue
				}
				for i, rec := range bc.Log {
					if hasKey(rec.Args, key) && (i == 0 || world.Lower(bc.Log[i-1].Args[0]) != "asking") {
						vs = append(vs, world.Violation{Sig: "ask-without-asking", Msg: fmt.Sprintf("after -ASK the request %q was re-sent to %s without a preceding ASKING", rec.Raw, AddrB)})
						return vs
					}
				}
			}
		}
		if n > 12 || w.HorizonHit {
			return append(vs, world.Violation{Sig: "unbounded-redirects", Msg: fmt.Sprintf("the redirected request was sent %d times", n)})
		}
		svs := CheckStreams(w, StreamOpts{AnyError: func(ci, j int) bool { return rc.final == "" && j == pos }})
		for i := range svs {
			switch svs[i].Sig {
			case "missing-tail":
				svs[i].Sig = "redirect-request-unanswered"
			case "duplicate", "extra-bytes":
				svs[i].Sig = "redirect-reply-duplicated"
			case "forwarded-swap":
				svs[i].Sig = "redirect-out-of-order"
			}
		}
		return append(vs, svs...)
	}
	return sc
}

func c13Scenarios(tier string) []*world.Scenario {
	var out []*world.Scenario
	b := 2
	if tier == "thorough" {
		b = 4
	}
	for _, rc := range c13Cases {
		for _, kind := range []string{"get", "mget", "del"} {
			for pos := 0; pos < 3; pos++ {
				out = append(out, c13Scenario(rc, kind, pos, b))
			}
		}
	}
	// the redirect line is not the first reply of its read and the final reply is followed by further replies in the
	// same read (how many ready replies a read carries is an enumerated choice)
	for _, rc := range c13Cases[:2] {
		for _, kind := range []string{"get", "mget"} {
			sc := c13Scenario(rc, kind, 1, b+1)
			key := keysA[5]
			var r Req
			if kind == "get" {
				r = GetReq(key)
			} else {
				r = MGetReq(keysB[2], key)
			}
			first := []Req{GetReq(keysA[2]), r, GetReq(keysB[1])}
			second := []Req{GetReq(keysB[4]), GetReq(keysA[3])}
			cs := ClientOf(append(append([]Req{}, first...), second...), true)
			var c1, c2 []byte
			for _, q := range first {
				c1 = append(c1, q.Bytes...)
			}
			for _, q := range second {
				c2 = append(c2, q.Bytes...)
			}
			cs.Chunks = []world.Chunk{{Data: c1}, {Data: c2}}
			sc.Clients = []world.ClientSpec{cs}
			sc.CoalesceChoice, sc.FreeKinds = true, []string{"coalesce"}
			sc.ReadCap, sc.WriteCap = 256, 256
			sc.Horizon = 120
			sc.Name = fmt.Sprintf("C13/%s/%s-sandwiched/coalesce-choice/d%d", rc.name, kind, b+1)
			out = append(out, sc)
		}
	}
	// the redirected request is followed, on the same connection, by a request the proxy answers itself (PING, an unknown
	// command) or by QUIT: the local reply / the close must wait for the final node's reply
	for _, rc := range c13Cases[:3] {
		for _, kind := range []string{"get", "mget", "del"} {
			for _, tail := range []string{"quit", "ping", "unknown", "get-quit"} {
				sc := c13Scenario(rc, kind, 0, b)
				key := keysA[5]
				var r Req
				switch kind {
				case "get":
					r = GetReq(key)
				case "mget":
					r = MGetReq(keysB[2], key)
				case "del":
					r = DelReq(key, keysC[2])
				}
				reqs := []Req{r}
				switch tail {
				case "quit":
					reqs = append(reqs, QuitReq())
				case "ping":
					reqs = append(reqs, PingReq(), GetReq(keysC[1]))
				case "unknown":
					reqs = append(reqs, UnknownReq(), GetReq(keysC[1]))
				case "get-quit":
					reqs = append(reqs, GetReq(keysC[1]), QuitReq())
				}
				sc.Clients = []world.ClientSpec{ClientOf(reqs, true)}
				sc.Name = fmt.Sprintf("C13/%s/%s-then-%s/d%d", rc.name, kind, tail, b)
				out = append(out, sc)
			}
		}
	}
	// scale-out in progress: a NEW master that owns no slot yet imports its first one (its node line carries only the
	// migration marker); requests for already migrated keys are answered -ASK to it
	for _, kind := range []string{"get", "mget", "del"} {
		rc := c13Cases[1] // ask-A-to-B semantics, the target being the new node D
		key := keysA[5]
		slot := world.SpecSlot([]byte(key))
		nodes := append(T3m(), world.NodeSpec{Name: "ddd", Addr: AddrD, Markers: []string{fmt.Sprintf("[%d-<-aaa]", slot)}})
		nodes[0].Markers = []string{fmt.Sprintf("[%d->-ddd]", slot)}
		sc := c13Scenario(rc, kind, 1, b)
		sc.Nodes = nodes
		sc.Family = "ask-to-slotless-importing-master"
		sc.Name = fmt.Sprintf("C13/ask-to-slotless-importing-master/%s/d%d", kind, b)
		sc.Reply = func(w *world.World, bc *world.BConn, args [][]byte) ([]byte, int) {
			if !hasKey(args, key) {
				return nil, 0
			}
			if bc.Addr == AddrA {
				return askTo(slot, AddrD), 0
			}
			if bc.Addr == AddrD {
				n := len(bc.Log)
				if n > 0 && world.Lower(bc.Log[n-1].Args[0]) == "asking" {
					return nil, 0
				}
				return movedTo(slot, AddrA), 0
			}
			return nil, 0
		}
		inner := sc.Check
		sc.Check = func(w *world.World) []world.Violation {
			// the ASKING oracle of the base case looks at node B: judge the streams (final node's reply, once, in order) and
			// that D saw ASKING directly before the request
			for _, bc := range w.BConns {
				if bc.Addr != AddrD {
					continue
				}
				for i, rec := range bc.Log {
					if hasKey(rec.Args, key) && (i == 0 || world.Lower(bc.Log[i-1].Args[0]) != "asking") {
						return []world.Violation{{Sig: "ask-without-asking", Msg: fmt.Sprintf("after -ASK the request %q was re-sent to %s without a preceding ASKING", rec.Raw, AddrD)}}
					}
				}
			}
			_ = inner
			svs := CheckStreams(w, StreamOpts{})
			for i := range svs {
				svs[i].Sig = "redirect-request-unanswered"
			}
			return svs
		}
		out = append(out, sc)
	}
	// several connections per node (the ASKING that precedes a re-sent request must travel on the SAME connection)
	for _, rc := range c13Cases[:3] {
		for _, kind := range []string{"get", "mget", "del"} {
			for _, conns := range []int{2, 3} {
				sc := c13Scenario(rc, kind, 1, b)
				sc.ServerConns = conns
				sc.Family = rc.name + "/several-connections"
				sc.Name += fmt.Sprintf("/%dconns-per-node", conns)
				out = append(out, sc)
			}
		}
	}
	// a split request whose fragments are ALL redirected, each once (the whole range has just moved): 2, 5, 6, 8, 12
	// fragments; the redirect bound is per hop chain of one fragment, not a budget of the request
	for _, kind := range []string{"mget", "del", "mset"} {
		for _, nf := range []int{2, 5, 6, 8, 12} {
			initSlotKeys()
			var ks []string
			for i := 0; i < nf; i++ {
				ks = append(ks, slotKeys[100+i*7])
			}
			var r Req
			switch kind {
			case "mget":
				r = MGetReq(ks...)
			case "del":
				r = DelReq(ks...)
			default:
				var kv []string
				for _, k := range ks {
					kv = append(kv, k, "v")
				}
				r = MSetReq(kv...)
			}
			sc := &world.Scenario{Nodes: T3m(), Bound: 1, Horizon: 400, Family: "all-fragments-redirected", ReadCap: 4096, WriteCap: 4096}
			sc.Clients = []world.ClientSpec{ClientOf([]Req{r, GetReq(keysC[1])}, true)}
			sc.Reply = func(w *world.World, bc *world.BConn, args [][]byte) ([]byte, int) {
				if bc.Addr == AddrA && len(args) > 1 && world.SpecSlot(args[1]) <= 5460 && world.Lower(args[0]) == kind {
					return movedTo(world.SpecSlot(args[1]), AddrB), 0
				}
				return nil, 0
			}
			sc.Name = fmt.Sprintf("C13/all-fragments-redirected/%s-%dfragments/d1", kind, nf)
			sc.Check = func(w *world.World) []world.Violation {
				svs := CheckStreams(w, StreamOpts{})
				for i := range svs {
					switch svs[i].Sig {
					case "missing-tail":
						svs[i].Sig = "redirect-request-unanswered"
					case "duplicate", "extra-bytes":
						svs[i].Sig = "redirect-reply-duplicated"
					default:
						svs[i].Sig = "redirect-out-of-order"
					}
				}
				return svs
			}
			out = append(out, sc)
		}
	}
	// several redirects outstanding at the same time: two / three pipelined requests for keys of a migrating (ASK) or moved
	// slot, their redirect replies in one read or in separate reads (how many a read carries is an enumerated choice)
	for _, mix := range []string{"ask,ask", "moved,moved", "ask,moved", "ask,ask,ask", "ask,get,ask"} {
		kinds := strings.Split(mix, ",")
		var reqs []Req
		redirect := map[string]string{}
		for j, kd := range kinds {
			k := keysA[5+j]
			if kd == "get" {
				k = keysB[6]
			} else {
				redirect[k] = kd
			}
			reqs = append(reqs, GetReq(k))
		}
		reqs = append(reqs, GetReq(keysC[1]))
		sc := &world.Scenario{Nodes: T3m(), Bound: b, Horizon: 120, Family: "concurrent-redirects", CoalesceChoice: true, FreeKinds: []string{"coalesce"}, ReadCap: 256, WriteCap: 256}
		sc.Clients = []world.ClientSpec{ClientOf(reqs, true)}
		sc.Reply = func(w *world.World, bc *world.BConn, args [][]byte) ([]byte, int) {
			if len(args) < 2 {
				return nil, 0
			}
			kd, ok := redirect[string(args[1])]
			if !ok {
				return nil, 0
			}
			slot := world.SpecSlot(args[1])
			if bc.Addr == AddrA {
				if kd == "ask" {
					return askTo(slot, AddrB), 0
				}
				return movedTo(slot, AddrB), 0
			}
			if bc.Addr == AddrB && kd == "ask" {
				n := len(bc.Log)
				if n > 0 && world.Lower(bc.Log[n-1].Args[0]) == "asking" {
					return nil, 0
				}
				return movedTo(slot, AddrA), 0 // not preceded by ASKING: the importing node refuses
			}
			return nil, 0
		}
		sc.Name = fmt.Sprintf("C13/concurrent-redirects/%s/d%d", mix, b)
		sc.Check = func(w *world.World) []world.Violation {
			for _, bc := range w.BConns {
				if bc.Addr != AddrB {
					continue
				}
				for i, rec := range bc.Log {
					if len(rec.Args) > 1 && redirect[string(rec.Args[1])] == "ask" && (i == 0 || world.Lower(bc.Log[i-1].Args[0]) != "asking") {
						return []world.Violation{{Sig: "ask-without-asking", Msg: fmt.Sprintf("after -ASK the request %q was re-sent to %s without a directly preceding ASKING", rec.Raw, AddrB)}}
					}
				}
			}
			if len(w.Cmds) > 40 || w.HorizonHit {
				return []world.Violation{{Sig: "unbounded-redirects", Msg: fmt.Sprintf("%d commands were sent for %d requests", len(w.Cmds), len(reqs))}}
			}
			svs := CheckStreams(w, StreamOpts{})
			for i := range svs {
				switch svs[i].Sig {
				case "missing-tail":
					svs[i].Sig = "redirect-request-unanswered"
				case "duplicate", "extra-bytes":
					svs[i].Sig = "redirect-reply-duplicated"
				case "forwarded-swap":
					svs[i].Sig = "redirect-out-of-order"
				}
			}
			return svs
		}
		out = append(out, sc)
	}
	// slot numbers at the edges of the redirect line's number field: slot 0, a one-digit slot, the last slot of the range
	initSlotKeys()
	for _, rc := range c13Cases[:3] {
		for _, slot := range []int{0, 7, 5460} {
			for _, kind := range []string{"get", "mget", "del"} {
				out = append(out, c13ScenarioKey(rc, kind, 1, b, slotKeys[slot]))
			}
		}
	}
	// round 10: each hop of a redirect is answered inside the request timeout, their sum is not
	for _, ask := range []bool{false, true} {
		out = append(out, SlowHops("C13", ask, 2))
	}
	return out
}

func init() {
	register(&Check{ID: "C11", Level: "fault_enumeration",
		Rule:      "error menu (ERR, WRONGTYPE, LOADING, CLUSTERDOWN, TRYAGAIN, CROSSSLOT, READONLY, OOM, MASTERDOWN, BUSY) x request kinds (single-key GET; MGET/DEL/MSET over 1 (two keys of one slot), 2 and 3 fragments) x EVERY non-empty subset of fragments answering with the error x all routing orders x all arrival orders (unbounded interleavings; bound 3 for 3-fragment quick tier), followed by a GET that must still be served; non-trivial = >= 1 deviation; distinct = observable outcomes; plus: the error reply arrives in the same backend read as the reply of ANOTHER client whose connection goes away while that reply is delivered (QUIT pipelined behind its request, FIN, RST), how many replies one read carries being an enumerated choice: the error still reaches its own client and its follow-up is served",
		Scenarios: c11Scenarios, BudgetQuick: 90, BudgetThorough: 1200,
		Assumptions: []string{"error texts are representative Redis error lines; the property quantifies over the error class, which the proxy treats uniformly (first byte '-')"}})
	register(&Check{ID: "C13", Level: "model_checking",
		Rule:      "cluster-model redirect situations {slot moved A->B; slot migrating A->B (ASK, target serves only after ASKING); MOVED chain A->B->C; two nodes redirecting to each other with MOVED and with ASK; MOVED followed by an ASK cycle; MOVED / ASK to self} x {single-key GET, fragment of MGET, fragment of DEL} x every position of a 3-request pipeline next to non-redirected requests x every interleaving within the bound; oracle: final node's reply once and in order, ASKING immediately before the re-sent command, bounded number of re-sends; non-trivial = >= 1 deviation; distinct = observable outcomes; plus the first three situations for keys of slot 0, a one-digit slot and the last slot of the node's range; plus MOVED / ASK for a request sandwiched between requests to the old and the new node, a second chunk of requests arriving at any time, and backend reads that carry any number of ready replies (redirect line not first in its read, final reply followed by further replies)",
		Scenarios: c13Scenarios, BudgetQuick: 90, BudgetThorough: 1200,
		Assumptions: []string{"node model implements MOVED/ASK/ASKING as the Redis Cluster specification describes"}})
}
