package checks

import (
	"bytes"
	"fmt"
	"sort"
	"strings"
	"time"

	"rcproxy/core/zz_verif/world"
)

// ---------------------------------------------------------------------------------------------
// C02: single-key requests and their replies pass through byte-exact.

var c02Shapes = [][]byte{
	[]byte("+OK\r\n"),
	[]byte("+QUEUED some status text\r\n"),
	[]byte("+PONG\r\n"),
	[]byte("-ERR value is not an integer or out of range\r\n"),
	[]byte("-WRONGTYPE Operation against a key holding the wrong kind of value\r\n"),
	[]byte(":0\r\n"),
	[]byte(":-42\r\n"),
	[]byte(":9223372036854775807\r\n"),
	[]byte("$-1\r\n"),
	[]byte("$0\r\n\r\n"),
	[]byte("$12\r\nab\r\ncd\r\n$1\r\n\r\n"),
	[]byte("$3\r\n\x00\xff\r\r\n"),
	[]byte("*-1\r\n"),
	[]byte("*0\r\n"),
	[]byte("*3\r\n$1\r\na\r\n$-1\r\n:7\r\n"),
	[]byte("*3\r\n*2\r\n*2\r\n+x\r\n$-1\r\n*0\r\n*-1\r\n-ERR nested\r\n"),
	[]byte("*2\r\n$1\r\n0\r\n*2\r\n$1\r\nf\r\n$0\r\n\r\n"),
}

func init() {
	big := bytes.Repeat([]byte("0123456789abcdef\r\n"), 280) // ~5 kB with CRLFs inside
	c02Shapes = append(c02Shapes, []byte(fmt.Sprintf("$%d\r\n%s\r\n", len(big), big)))
	for _, sh := range c02Shapes {
		if n, st := world.ParseReply(sh); st != world.ParseOK || n != len(sh) {
			panic(fmt.Sprintf("c02: reply shape %q is not exactly one well-formed reply", sh))
		}
	}
}

var c02Args = []string{"a", "", "\r\n", "$-1", "\x00\xff\x80", strings.Repeat("x70-", 18), "*1\r\n$4\r\nping\r\n", "-1"}

func caseVariant(name string, v int) string {
	switch v {
	case 0:
		return name
	case 1:
		return strings.ToUpper(name)
	}
	b := []byte(name)
	for i := range b {
		if i%2 == 0 {
			b[i] = b[i] &^ 0x20
		}
	}
	return string(b)
}

func argCounts(a world.Arity) []int {
	switch a {
	case world.Ar1:
		return []int{1}
	case world.Ar2:
		return []int{2}
	case world.Ar3:
		return []int{3}
	case world.Ar4:
		return []int{4}
	case world.ArInf:
		return []int{1, 2, 3, 5}
	case world.ArMin3:
		return []int{3, 4, 6}
	}
	return nil
}

func singleKeyCommands() []string {
	var names []string
	for n, s := range world.SpecTable {
		if s.Local || s.Split {
			continue
		}
		names = append(names, n)
	}
	sort.Strings(names)
	return names
}

type c02req struct {
	raw   []byte
	reply []byte
}

// c02Batch: closed-loop client sending every variant of one command; the owning node answers with a
// reply shape chosen per request.
func c02Batch(name string, nodes []world.NodeSpec, password string, big bool) *world.Scenario {
	return c02BatchG(name, nodes, password, big, 1)
}

// c02BatchG: the same with `group` requests per chunk (open loop inside a chunk: every request but the last of a chunk is
// decoded with further client bytes buffered behind it; the next chunk follows when all replies so far have arrived).
func c02BatchG(name string, nodes []world.NodeSpec, password string, big bool, group int) *world.Scenario {
	sp := world.SpecTable[name]
	sc := &world.Scenario{Nodes: nodes, Bound: 0, Password: password, Family: "commands", Horizon: 1 << 20, InputEnum: true}
	var reqs []c02req
	cs := world.ClientSpec{}
	i := 0
	replyOf := map[string][]byte{}
	for _, n := range argCounts(sp.Arity) {
		if sp.Eval && n < 3 {
			continue
		}
		for v := 0; v < 3; v++ {
			for rot := 0; rot < len(c02Args); rot++ {
				args := []string{caseVariant(name, v)}
				for k := 0; k < n; k++ {
					args = append(args, c02Args[(rot+k*3+i)%len(c02Args)])
				}
				raw := world.Cmd(args...)
				// the lowered request identifies the reply the node gives
				low := lowerName(append([]byte{}, raw...))
				reply := c02Shapes[int(fnv32(low))%len(c02Shapes)]
				replyOf[string(low)] = reply
				reqs = append(reqs, c02req{raw, reply})
				if i%group == 0 {
					cs.Chunks = append(cs.Chunks, world.Chunk{Data: append([]byte{}, raw...), WaitReplies: i})
				} else {
					last := &cs.Chunks[len(cs.Chunks)-1]
					last.Data = append(last.Data, raw...)
				}
				cs.Reqs = append(cs.Reqs, raw)
				cs.Expect = append(cs.Expect, reply)
				i++
			}
		}
	}
	if big {
		for _, sz := range []int{1100, 4200, 70000} {
			args := []string{name}
			for k := 0; k < argCounts(sp.Arity)[0]; k++ {
				if sp.Eval && k < 2 {
					args = append(args, "1")
					continue
				}
				args = append(args, strings.Repeat("B", sz))
			}
			if sp.Eval {
				args = append(args, "k", strings.Repeat("B", sz))
			}
			raw := world.Cmd(args...)
			reply := c02Shapes[len(c02Shapes)-1]
			replyOf[string(lowerName(append([]byte{}, raw...)))] = reply
			reqs = append(reqs, c02req{raw, reply})
			cs.Chunks = append(cs.Chunks, world.Chunk{Data: raw, WaitReplies: i})
			cs.Reqs = append(cs.Reqs, raw)
			cs.Expect = append(cs.Expect, reply)
			i++
		}
	}
	sc.Clients = []world.ClientSpec{cs}
	sc.Reply = func(w *world.World, bc *world.BConn, args [][]byte) ([]byte, int) {
		raw := world.CmdB(args...)
		if r, ok := replyOf[string(lowerName(raw))]; ok {
			return r, 0
		}
		return []byte("-ERR model: unexpected request\r\n"), 0
	}
	pw := "nopw"
	if password != "" {
		pw = "pw"
	}
	sc.Name = fmt.Sprintf("C02/cmd/%s/%dnodes/%s/big=%v", name, len(nodes), pw, big)
	sc.Check = func(w *world.World) []world.Violation { return c02Oracle(w, reqs, name) }
	if group > 1 {
		sc.Name += fmt.Sprintf("/pipelined%d", group)
		sc.Family = "commands-pipelined"
		sc.Check = func(w *world.World) []world.Violation { return c02OracleUnordered(w, reqs, name) }
	}
	return sc
}

// c02OracleUnordered: as c02Oracle, but requests of one chunk may reach different nodes in any relative order: the
// multiset of request bytes that reached the nodes must equal the multiset sent.
func c02OracleUnordered(w *world.World, reqs []c02req, name string) []world.Violation {
	var vs []world.Violation
	svs := CheckStreams(w, StreamOpts{})
	for i := range svs {
		if svs[i].Sig == "corrupt" || svs[i].Sig == "forwarded-swap" {
			svs[i].Sig = "reply-bytes-differ"
		}
	}
	vs = append(vs, svs...)
	var want, got []string
	for _, r := range reqs {
		want = append(want, string(lowerName(append([]byte{}, r.raw...))))
	}
	for _, rec := range w.DataCmds("") {
		got = append(got, string(lowerName(append([]byte{}, rec.Raw...))))
	}
	sort.Strings(want)
	sort.Strings(got)
	if len(vs) == 0 && len(want) != len(got) {
		vs = append(vs, world.Violation{Sig: "request-count-differs:" + name, Msg: fmt.Sprintf("%d requests sent, %d commands reached backends", len(want), len(got))})
	}
	for i := 0; i < len(want) && i < len(got); i++ {
		if want[i] != got[i] {
			vs = append(vs, world.Violation{Sig: "request-bytes-differ:" + name, Msg: fmt.Sprintf("pipelined requests: the nodes received %q, which the client did not send (it sent e.g. %q)", clipq([]byte(got[i])), clipq([]byte(want[i])))})
			break
		}
	}
	return append(vs, BackendsWellFormed(w)...)
}

func fnv32(b []byte) uint32 {
	h := uint32(2166136261)
	for _, c := range b {
		h = (h ^ uint32(c)) * 16777619
	}
	return h >> 3
}

func lowerName(raw []byte) []byte {
	// lower-case the first bulk string (the command name) in place
	i := bytes.IndexByte(raw, '\n')
	j := i + 1 + bytes.IndexByte(raw[i+1:], '\n') + 1
	args, _, st := world.ParseRequestStrict(raw)
	if st != world.ParseOK {
		return raw
	}
	for k := 0; k < len(args[0]); k++ {
		if raw[j+k] >= 'A' && raw[j+k] <= 'Z' {
			raw[j+k] |= 0x20
		}
	}
	return raw
}

func c02Oracle(w *world.World, reqs []c02req, name string) []world.Violation {
	var vs []world.Violation
	svs := CheckStreams(w, StreamOpts{})
	for i := range svs {
		if svs[i].Sig == "corrupt" || svs[i].Sig == "forwarded-swap" {
			svs[i].Sig = "reply-bytes-differ"
		}
	}
	vs = append(vs, svs...)
	data := w.DataCmds("")
	if len(data) != len(reqs) && len(vs) == 0 {
		vs = append(vs, world.Violation{Sig: "request-count-differs:" + name, Msg: fmt.Sprintf("%d requests sent, %d commands reached backends", len(reqs), len(data))})
	}
	for i, rec := range data {
		if i >= len(reqs) {
			break
		}
		want := lowerName(append([]byte{}, reqs[i].raw...))
		got := lowerName(append([]byte{}, rec.Raw...))
		if !bytes.Equal(want, got) {
			vs = append(vs, world.Violation{Sig: "request-bytes-differ:" + name, Msg: fmt.Sprintf("client sent %q, node %s received %q", clipq(reqs[i].raw), rec.Addr, clipq(rec.Raw))})
			break
		}
	}
	return append(vs, BackendsWellFormed(w)...)
}

func clipq(b []byte) []byte {
	if len(b) > 200 {
		return append(append([]byte{}, b[:200]...), "..."...)
	}
	return b
}

// c02Seg: one request and its reply under request/reply segmentations and a slow reader.
func c02Seg(name string, raw, reply []byte, reqCuts []int, replyCuts []int, slow bool, bound int) *world.Scenario {
	sc := &world.Scenario{Nodes: T3m(), Bound: bound, Family: "segmentation", Horizon: 2000, ReplyCuts: replyCuts, WriteOracle: slow}
	cs := world.ClientSpec{Slow: slow}
	cs.Chunks = SplitAt(raw, reqCuts...)
	cs.Reqs = [][]byte{raw}
	cs.Expect = [][]byte{reply}
	sc.Clients = []world.ClientSpec{cs}
	sc.Reply = func(w *world.World, bc *world.BConn, args [][]byte) ([]byte, int) { return reply, 0 }
	if slow {
		sc.Family = "slow-reader"
	}
	sc.Name = fmt.Sprintf("C02/seg/%s/req%v/rep%v/slow=%v/d%d", name, reqCuts, replyCuts, slow, bound)
	reqs := []c02req{{raw, reply}}
	sc.Check = func(w *world.World) []world.Violation { return c02Oracle(w, reqs, name) }
	return sc
}

func c02Scenarios(tier string) []*world.Scenario {
	var out []*world.Scenario
	thorough := tier == "thorough"
	for _, n := range singleKeyCommands() {
		out = append(out, c02Batch(n, T3m(), "", false))
		out = append(out, c02BatchG(n, T3m(), "", false, 3))
		if thorough || n == "get" || n == "set" || n == "eval" || n == "hmset" || n == "zrange" {
			out = append(out, c02Batch(n, T3(), "secret", thorough))
			co := c02Batch(n, T3(), "secret", false)
			co.CoalesceAll = true
			co.Name += "/coalesced"
			out = append(out, co)
		}
	}
	// segmentation of requests and replies
	type rr struct {
		name       string
		raw, reply []byte
	}
	cases := []rr{
		{"get", world.Cmd("GeT", keysA[0]), c02Shapes[10]},
		{"set-crlf", world.Cmd("set", keysB[0], "a\r\nb\x00"), c02Shapes[0]},
		{"eval", world.Cmd("EVAL", "return 1", "1", keysC[0], ""), c02Shapes[15]},
		{"hmset-empty", world.Cmd("hmset", keysA[1], "", ""), c02Shapes[14]},
	}
	for _, c := range cases {
		for cut := 1; cut < len(c.raw); cut++ {
			out = append(out, c02Seg(c.name, c.raw, c.reply, []int{cut}, nil, false, 1))
		}
		for cut := 1; cut < len(c.reply); cut++ {
			out = append(out, c02Seg(c.name, c.raw, c.reply, nil, []int{cut}, false, 1))
		}
		if thorough {
			for c1 := 1; c1 < len(c.raw); c1++ {
				for c2 := c1 + 1; c2 < len(c.raw); c2++ {
					out = append(out, c02Seg(c.name, c.raw, c.reply, []int{c1, c2}, nil, false, 1))
				}
			}
			for c1 := 1; c1 < len(c.reply); c1++ {
				for c2 := c1 + 1; c2 < len(c.reply); c2++ {
					out = append(out, c02Seg(c.name, c.raw, c.reply, nil, []int{c1, c2}, false, 1))
				}
			}
		}
	}
	// a 3.5 KB request and a 3.5 KB reply in three and four segments at the production buffer sizes (small first segment,
	// then more than twice the inbound ring's size)
	{
		big := strings.Repeat("0123456789abcdef", 220)
		raw := world.Cmd("set", keysA[2], big)
		rep := world.Bulk(big)
		for _, cuts := range [][]int{{1000, 3000}, {30, 1500, 3400}, {1024, 2048}, {5, 2100}} {
			a := c02Seg("set-3.5KB", raw, c02Shapes[0], cuts, nil, false, 0)
			a.ReadCap, a.WriteCap = 65536, 65536
			a.Name += "/production-buffers"
			out = append(out, a)
			g := c02Seg("get-3.5KB", world.Cmd("get", keysA[2]), rep, nil, cuts, false, 0)
			g.ReadCap, g.WriteCap = 65536, 65536
			g.Name += "/production-buffers"
			out = append(out, g)
		}
	}
	// slow reader: the write oracle answers EAGAIN / short writes
	slowB := 2
	if thorough {
		slowB = 3
	}
	for _, sh := range []int{10, 15, len(c02Shapes) - 1} {
		out = append(out, c02Seg("get", world.Cmd("get", keysA[0]), c02Shapes[sh], nil, nil, true, slowB))
		out = append(out, c02Seg("get", world.Cmd("get", keysA[0]), c02Shapes[sh], nil, []int{7}, true, slowB))
	}
	// slow reader with several replies in flight: partial drains of the backlog interleaved with new replies
	// (the backlog crosses from the ring part into the list part of the outbound buffer at 64 bytes)
	for _, sizes := range [][]int{{90, 40, 30}, {30, 90, 90}, {70, 70, 70}} {
		var reqs []Req
		replyOf := map[string][]byte{}
		for j, sz := range sizes {
			k := keysA[j]
			r := GetReq(k)
			r.Expect = world.Bulk(fmt.Sprintf("%c", 'a'+j) + strings.Repeat(fmt.Sprintf("%d", j), sz-7))
			replyOf[k] = r.Expect
			reqs = append(reqs, r)
		}
		sc := &world.Scenario{Nodes: T3m(), Bound: slowB + 1, Family: "slow-reader-pipeline", Horizon: 400, WriteOracle: true, WriteCap: 64}
		cs := ClientOf(reqs, true)
		cs.Slow = true
		sc.Clients = []world.ClientSpec{cs}
		sc.Reply = func(w *world.World, bc *world.BConn, args [][]byte) ([]byte, int) {
			if len(args) > 1 {
				if r, ok := replyOf[string(args[1])]; ok {
					return r, 0
				}
			}
			return nil, 0
		}
		sc.Name = fmt.Sprintf("C02/slow-pipeline/replies%v/d%d", sizes, sc.Bound)
		sc.Check = func(w *world.World) []world.Violation {
			vs := CheckStreams(w, StreamOpts{})
			for i := range vs {
				if vs[i].Sig == "corrupt" || vs[i].Sig == "forwarded-swap" {
					vs[i].Sig = "reply-bytes-differ"
				}
			}
			return vs
		}
		out = append(out, sc)
	}
	for _, sz := range [][3]int{{1, 30, 30}, {70, 3, 20}, {3, 3, 90}} {
		out = append(out, SlowMultiFlush("C02", sz, slowB))
	}
	// more replies than one vectored write takes (1024 slices) released by one flush, then two more requests
	{
		sc := BigBatch("C02", 1100, false, 1)
		inner := sc.Check
		sc.Check = func(w *world.World) []world.Violation {
			vs := inner(w)
			for i := range vs {
				if vs[i].Sig != "backend-received-malformed" {
					vs[i].Sig = "reply-bytes-differ"
				}
			}
			return vs
		}
		out = append(out, sc)
	}
	// production-size buffers: replies of 64 KiB and more parked for a slow reader while request objects are recycled
	for _, sz := range [][]int{{100, 70000, 70000}, {70000, 66000, 100}, {140000, 10, 65536}} {
		sc := BigSlowRecycle("C02", sz, 60000, 2)
		inner := sc.Check
		sc.Check = func(w *world.World) []world.Violation {
			vs := inner(w)
			for i := range vs {
				if vs[i].Sig == "corrupt" || vs[i].Sig == "forwarded-swap" {
					vs[i].Sig = "reply-bytes-differ"
				}
			}
			return vs
		}
		out = append(out, sc)
	}
	// a connection that died in the middle of a message must leave nothing behind that alters another connection's bytes:
	// (i) a client aborts inside a request, then another client's request arrives cut; (ii) a node dies inside a reply,
	// then the reply to the next request (new connection) arrives cut
	{
		victim := SetReq(keysB[0], "hello\r\nworld")
		ab := world.Cmd("set", keysA[0], strings.Repeat("A", 34))
		for _, plen := range []int{1, 9, len(ab) - 30, len(ab) - 1} {
			for _, rst := range []bool{false, true} {
				for _, cut := range []int{4, 13, len(victim.Bytes) - 9, len(victim.Bytes) - 1} {
					for _, cap := range []int{32, 65536} {
						sc := AbortedNeighbour(ab[:plen], rst, []Req{victim}, []int{cut}, cap)
						sc.Name = fmt.Sprintf("C02/aborted-neighbour/prefix%d/rst=%v/cut%d/cap%d", plen, rst, cut, cap)
						raw := victim.Bytes
						sc.Check = func(w *world.World) []world.Violation {
							vs := CheckStreams(w, StreamOpts{})
							for i := range vs {
								vs[i].Sig = "reply-bytes-differ"
							}
							data := w.DataCmds("")
							if len(data) != 1 || !bytes.Equal(data[0].Raw, raw) {
								var got [][]byte
								for _, d := range data {
									got = append(got, d.Raw)
								}
								vs = append(vs, world.Violation{Sig: "request-bytes-differ:set", Msg: fmt.Sprintf("client sent %q after another connection died inside a request; the nodes received %q", raw, got)})
							}
							return append(vs, BackendsWellFormed(w)...)
						}
						out = append(out, sc)
					}
				}
			}
		}
		for _, kind := range []string{"backend-close", "backend-rst"} {
			for _, cut := range []int{1, 3, 7} {
				sc := BackendLossMidReply(kind, cut, slowB)
				sc.Name = fmt.Sprintf("C02/backend-loss-mid-reply/%s/cut%d/d%d", kind, cut, sc.Bound)
				sc.Check = func(w *world.World) []world.Violation {
					var vs []world.Violation
					c := w.Clients[0]
					rs, rest, malformed := world.SplitReplies(c.Received)
					if malformed || len(rest) > 0 || len(rs) > 2 {
						return []world.Violation{{Sig: "reply-bytes-differ", Msg: fmt.Sprintf("client stream %q", c.Received)}}
					}
					for j, r := range rs {
						// the request whose connection died may be answered with an error; otherwise the node's bytes, unchanged
						if !bytes.Equal(r, c.Spec.Expect[j]) && !world.IsError(r) {
							vs = append(vs, world.Violation{Sig: "reply-bytes-differ", Msg: fmt.Sprintf("request %d (%q) was answered %q; the node sent %q", j, c.Spec.Reqs[j], r, c.Spec.Expect[j])})
						}
					}
					for _, d := range w.DataCmds("") {
						if !bytes.Equal(d.Raw, c.Spec.Reqs[0]) && !bytes.Equal(d.Raw, c.Spec.Reqs[1]) {
							vs = append(vs, world.Violation{Sig: "request-bytes-differ:get", Msg: fmt.Sprintf("a node received %q", d.Raw)})
						}
					}
					return append(vs, BackendsWellFormed(w)...)
				}
				out = append(out, sc)
			}
		}
	}
	if thorough {
		// "multi-megabyte" argument, production buffer sizes
		big := strings.Repeat("M", 2<<20)
		s := c02Seg("set-2MiB", world.Cmd("set", keysA[2], big), c02Shapes[0], []int{1000, 70000, 1 << 20}, nil, false, 0)
		s.ReadCap, s.WriteCap, s.MaxLen, s.Horizon = 65536, 65536, 6<<20, 100000
		out = append(out, s)
		g := c02Seg("get-2MiB", world.Cmd("get", keysA[2]), world.Bulk(big), nil, []int{5, 65536, 1 << 20}, true, 1)
		g.ReadCap, g.WriteCap, g.MaxLen, g.Horizon = 65536, 65536, 6<<20, 100000
		out = append(out, g)
	}
	// round 11: replies of minimal size (status / error line with empty text, alone and nested)
	out = append(out, TerseReplies("C02", 2)...)
	return out
}

// ---------------------------------------------------------------------------------------------
// C04: requests are routed to the replica set owning the key's slot, by role; handshake.

var slotKeys [16384]string

func initSlotKeys() {
	if slotKeys[0] != "" {
		return
	}
	left := 16384
	for i := 0; left > 0; i++ {
		k := fmt.Sprintf("s%d", i)
		s := world.SpecSlot([]byte(k))
		if slotKeys[s] == "" {
			slotKeys[s] = k
			left--
		}
	}
}

func layout(kind string) []world.NodeSpec {
	switch kind {
	case "thirds":
		return T3()
	case "alternating":
		n := T3()
		n[0].Slots, n[1].Slots, n[2].Slots = nil, nil, nil
		for i := 0; i < 64; i++ {
			lo, hi := i*256, i*256+255
			n[i%3].Slots = append(n[i%3].Slots, [2]int{lo, hi})
		}
		return n
	case "edges":
		n := T3()
		n[0].Slots = [][2]int{{0, 0}, {2, 5460}, {16383, 16383}}
		n[1].Slots = [][2]int{{1, 1}, {5461, 5461}, {5463, 10922}}
		n[2].Slots = [][2]int{{5462, 5462}, {10923, 16382}}
		return n
	}
	panic(kind)
}

func allowedNodes(sc *world.Scenario, key []byte, write bool) (allowed map[string]bool, master string) {
	m, reps := sc.ReplicaSet(world.SpecSlot(key))
	allowed = map[string]bool{m: true}
	if !write && !sc.DisableSlave {
		for _, r := range reps {
			allowed[r] = true
		}
	}
	return allowed, m
}

func c04RouteOracle(w *world.World, nreq int) []world.Violation {
	var vs []world.Violation
	sc := w.Sc
	data := w.DataCmds("")
	if len(data) != nreq {
		vs = append(vs, world.Violation{Sig: "request-count-differs", Msg: fmt.Sprintf("%d requests sent, %d reached backends", nreq, len(data))})
	}
	for _, rec := range data {
		name := world.Lower(rec.Args[0])
		sp, ok := world.SpecTable[name]
		if !ok {
			continue
		}
		ki := 1
		if sp.Eval {
			ki = 3
		}
		key := rec.Args[ki]
		allowed, master := allowedNodes(sc, key, sp.Write)
		if !allowed[rec.Addr] {
			sig := "wrong-replica-set"
			mm, reps := sc.ReplicaSet(world.SpecSlot(key))
			inSet := rec.Addr == mm
			for _, r := range reps {
				if r == rec.Addr {
					inSet = true
				}
			}
			if inSet {
				switch {
				case sc.DisableSlave:
					sig = "replica-read-while-disabled"
				case sp.Eval || strings.HasSuffix(name, "scan"):
					sig = "scan-or-script-to-replica:" + name
				default:
					sig = "write-to-replica:" + name
				}
			}
			vs = append(vs, world.Violation{Sig: sig, Msg: fmt.Sprintf("%q (slot %d, master %s) was sent to %s", clipq(rec.Raw), world.SpecSlot(key), master, rec.Addr)})
			break
		}
	}
	return vs
}

func c04Handshake(w *world.World) []world.Violation {
	var vs []world.Violation
	for _, bc := range w.BConns {
		want := []string{}
		if w.Sc.Password != "" {
			want = append(want, "auth")
		}
		if bc.Node.Master != "" {
			want = append(want, "readonly")
		}
		if len(bc.Log) == 0 {
			continue
		}
		got := strings.Join(bc.PreData, ",")
		if bc.BadOrder != "" || got != strings.Join(want, ",") {
			sig := "request-before-auth"
			if w.Sc.Password == "" || (len(bc.PreData) > 0 && bc.PreData[0] == "auth") {
				sig = "request-before-readonly"
			}
			vs = append(vs, world.Violation{Sig: sig, Msg: fmt.Sprintf("connection %d to %s (replica=%v): handshake commands %q, expected %q before the first request; %s", bc.ID, bc.Addr, bc.Node.Master != "", got, strings.Join(want, ","), bc.BadOrder)})
		}
		if w.Sc.Password != "" && len(bc.Log) > 0 {
			a := bc.Log[0]
			if world.Lower(a.Args[0]) != "auth" || len(a.Args) != 2 || string(a.Args[1]) != w.Sc.Password {
				vs = append(vs, world.Violation{Sig: "request-before-auth", Msg: fmt.Sprintf("first command on connection to %s is %q", bc.Addr, a.Raw)})
			}
		}
	}
	return vs
}

var highKeys [16384]string

// highByteKey: for every slot a brace-free key that contains bytes >= 0x80 (a multi-byte UTF-8 rune, a lone continuation
// byte, 0xff) next to a counter
func highByteKey(slot int) string {
	if highKeys[0] == "" {
		left := 16384
		pre := []string{"\xe4\xb8\xad", "\xd0\x9f\xd1\x80", "\xff", "\x80\xfe", "caf\xc3\xa9"}
		for i := 0; left > 0; i++ {
			k := pre[i%len(pre)] + fmt.Sprint(i) + "\xc3"
			s := world.SpecSlot([]byte(k))
			if highKeys[s] == "" {
				highKeys[s] = k
				left--
			}
		}
	}
	return highKeys[slot]
}

func c04AllSlots(lay string, cmd string, tagged int, disable bool) *world.Scenario {
	initSlotKeys()
	sc := &world.Scenario{Nodes: layout(lay), Bound: 0, Family: "all-slots", Horizon: 1 << 22, DisableSlave: disable, InputEnum: true}
	cs := world.ClientSpec{}
	for s := 0; s < 16384; s++ {
		k := slotKeys[s]
		switch tagged {
		case 1:
			k = "pre{" + k + "}post}" + fmt.Sprint(s%7)
		case 2:
			// a closing brace BEFORE the first opening one does not end the tag
			k = fmt.Sprint(s%5) + "}{" + k + "}" + fmt.Sprint(s%3) + "{x}"
		case 3:
			// bytes >= 0x80 (UTF-8 text, invalid UTF-8, binary) in the key: a brace-free key per slot
			k = highByteKey(s)
		}
		var r Req
		if cmd == "get" {
			r = GetReq(k)
		} else {
			r = SetReq(k, "v")
		}
		cs.Chunks = append(cs.Chunks, world.Chunk{Data: r.Bytes, WaitReplies: s})
		cs.Expect = append(cs.Expect, r.Expect)
	}
	sc.Clients = []world.ClientSpec{cs}
	sc.Name = fmt.Sprintf("C04/all-slots/%s/%s/tagged=%v/disable_slave=%v", lay, cmd, tagged, disable)
	sc.Check = func(w *world.World) []world.Violation {
		vs := c04RouteOracle(w, 16384)
		vs = append(vs, c04Handshake(w)...)
		if len(vs) == 0 {
			vs = append(vs, CheckStreams(w, StreamOpts{})...)
		}
		return vs
	}
	return sc
}

func replicaTopo(n int) []world.NodeSpec {
	t := T3m()
	for i := 0; i < n; i++ {
		t = append(t, world.NodeSpec{Name: fmt.Sprintf("a%d", i+1), Addr: fmt.Sprintf("10.0.1.%d:7000", i+1), Master: "aaa"})
		t = append(t, world.NodeSpec{Name: fmt.Sprintf("c%d", i+1), Addr: fmt.Sprintf("10.0.3.%d:7000", i+1), Master: "ccc"})
	}
	return t
}

// c04Command: one command at a slot position, under every outcome of every random choice.
func c04Command(name string, nrep int, disable bool, slot int, password string) *world.Scenario {
	initSlotKeys()
	sp := world.SpecTable[name]
	sc := &world.Scenario{Nodes: replicaTopo(nrep), Bound: 0, FreeKinds: []string{"intn"}, Family: "commands", Horizon: 400, DisableSlave: disable, IntnChoice: true, Password: password}
	key := slotKeys[slot]
	n := 1
	if ac := argCounts(sp.Arity); len(ac) > 0 {
		n = ac[0]
	}
	args := []string{name}
	if sp.Eval {
		args = append(args, "return 1", "1", key)
	} else {
		args = append(args, key)
		for k := 1; k < n; k++ {
			args = append(args, "1")
		}
	}
	if sp.Arity == world.ArEven {
		args = []string{name, key, "v"}
	}
	raw := world.Cmd(args...)
	cs := world.ClientSpec{Chunks: []world.Chunk{{Data: raw}, {Data: raw, WaitReplies: 1}}, Reqs: [][]byte{raw, raw}, Expect: [][]byte{nil, nil}}
	sc.Clients = []world.ClientSpec{cs}
	sc.Name = fmt.Sprintf("C04/cmd/%s/%drep/disable=%v/slot%d/pw=%v", name, nrep, disable, slot, password != "")
	sc.Check = func(w *world.World) []world.Violation {
		vs := c04RouteOracle(w, 2)
		vs = append(vs, c04Handshake(w)...)
		if len(vs) == 0 {
			vs = append(vs, CheckStreams(w, StreamOpts{})...)
		}
		return vs
	}
	return sc
}

// c04RealBoot: the proxy is started by the REAL serve() / engine.start(): seed pools from the configured server list, the
// handshake command rendered at boot, optionally preconnected connections; the first topology arrives through the real
// probe path. Then requests: every connection that carries a request has authenticated (and is READONLY on a replica)
// before, and every request reaches the owning set.
func c04RealBoot(name string, nodes []world.NodeSpec, seeds []string, pw string, preconnect, disableSlave bool, bound int) *world.Scenario {
	sc := &world.Scenario{Nodes: nodes, Bound: bound, Family: "real-boot", Horizon: 600, RealBoot: true, Seeds: seeds, Preconnect: preconnect,
		Password: pw, DisableSlave: disableSlave, RefreshLoop: true, CheckOwner: true,
		Ticks: []time.Duration{1100 * time.Millisecond, 1100 * time.Millisecond, 1100 * time.Millisecond}}
	sc.TickGate = func(w *world.World) bool { return w.ProbesIdle() }
	reqs := []Req{GetReq(keysA[0]), SetReq(keysA[1], "v"), GetReq(keysB[0]), SetReq(keysC[0], "w"), MGetReq(keysA[2], keysB[2])}
	cs := ClientOf(reqs, false)
	for j := range cs.Chunks {
		cs.Chunks[j].WaitTicks, cs.Chunks[j].WaitReplies = 3, j
		cs.Chunks[j].Gate = func(w *world.World) bool { return w.ProbesIdle() }
	}
	sc.Clients = []world.ClientSpec{cs}
	sc.Name = fmt.Sprintf("C04/real-boot/%s/pw=%v/preconnect=%v/disable_slave=%v/d%d", name, pw != "", preconnect, disableSlave, bound)
	sc.Check = func(w *world.World) []world.Violation {
		if w.RefreshDead {
			return []world.Violation{{Sig: "crash", Msg: "the refresh goroutine terminated"}}
		}
		var vs []world.Violation
		for _, bc := range w.BConns {
			if !bc.SawData {
				continue // a connection that only carried the proxy's own topology probe
			}
			want := []string{}
			if pw != "" {
				want = append(want, "auth")
			}
			if bc.Node.Master != "" {
				want = append(want, "readonly")
			}
			if got := strings.Join(bc.PreData, ","); bc.BadOrder != "" || got != strings.Join(want, ",") {
				sig := "request-before-auth"
				if pw == "" || (len(bc.PreData) > 0 && bc.PreData[0] == "auth") {
					sig = "request-before-readonly"
				}
				vs = append(vs, world.Violation{Sig: sig, Msg: fmt.Sprintf("connection %d to %s (replica=%v) carried requests after the handshake commands %q, expected %q; %s", bc.ID, bc.Addr, bc.Node.Master != "", got, strings.Join(want, ","), bc.BadOrder)})
			}
		}
		if len(vs) == 0 {
			vs = append(vs, c04RouteOracle(w, len(reqs)+1)...) // the split MGET travels as two fragments
		}
		if len(vs) == 0 {
			vs = append(vs, CheckStreams(w, StreamOpts{})...)
		}
		return vs
	}
	return sc
}

func c04HandshakeCuts(mask int, password string, replica bool) *world.Scenario {
	sc := &world.Scenario{Nodes: replicaTopo(1), Bound: 0, Family: "handshake", Horizon: 400, Password: password, InputEnum: true}
	if !replica {
		sc.DisableSlave = true
	}
	var cuts []int
	for i := 0; i < 9; i++ {
		if mask&(1<<i) != 0 {
			cuts = append(cuts, i+1)
		}
	}
	if cuts == nil {
		cuts = []int{}
	}
	sc.HandshakeCuts = cuts
	r1, r2 := GetReq(keysA[0]), GetReq(keysA[1])
	cs := ClientOf([]Req{r1, r2}, true)
	sc.Clients = []world.ClientSpec{cs}
	sc.Name = fmt.Sprintf("C04/handshake/pw=%v/replica=%v/cuts%v", password != "", replica, cuts)
	sc.Check = func(w *world.World) []world.Violation {
		vs := c04Handshake(w)
		vs = append(vs, c04RouteOracle(w, 2)...)
		svs := CheckStreams(w, StreamOpts{})
		for i := range svs {
			if svs[i].Sig == "corrupt" || svs[i].Sig == "extra-bytes" {
				svs[i].Sig = "handshake-reply-leaked-or-lost"
			}
		}
		return append(vs, svs...)
	}
	return sc
}

// c04RoleFlip: a master with open connections is demoted to replica (failover): reads routed to it afterwards
// must travel on a connection that was switched to READONLY; a promoted replica must accept writes.
func c04RoleFlip(password string, bound int) *world.Scenario {
	before := []world.NodeSpec{
		{Name: "aaa", Addr: AddrA, Slots: [][2]int{{0, 5460}}},
		{Name: "bbb", Addr: AddrB, Slots: [][2]int{{5461, 10922}}},
		{Name: "ccc", Addr: AddrC, Slots: [][2]int{{10923, 16383}}},
		{Name: "a1", Addr: AddrA1, Master: "aaa"},
	}
	after := []world.NodeSpec{
		{Name: "a1", Addr: AddrA1, Slots: [][2]int{{0, 5460}}},
		{Name: "bbb", Addr: AddrB, Slots: [][2]int{{5461, 10922}}},
		{Name: "ccc", Addr: AddrC, Slots: [][2]int{{10923, 16383}}},
		{Name: "aaa", Addr: AddrA, Master: "a1"},
	}
	sc := &world.Scenario{Nodes: before, Bound: bound, Family: "role-flip", Horizon: 400, Password: password,
		Faults: []world.Fault{{Kind: "topo", Nodes: after}}, Ticks: []time.Duration{1100 * time.Millisecond}}
	sc.TickGate = func(w *world.World) bool { return w.FaultsDone() }
	k := keysA[0]
	w1, r1 := SetReq(k, "v"), GetReq(k)
	cs := ClientOf([]Req{w1, r1, r1, w1}, false)
	cs.Chunks[2].WaitTicks, cs.Chunks[3].WaitTicks = 1, 1
	cs.Chunks[2].WaitReplies, cs.Chunks[3].WaitReplies = 2, 3
	sc.Clients = []world.ClientSpec{cs}
	sc.Name = fmt.Sprintf("C04/role-flip/pw=%v/d%d", password != "", bound)
	sc.Check = func(w *world.World) []world.Violation {
		var vs []world.Violation
		for _, rec := range w.DataCmds("") {
			if rec.CR < 2 {
				continue // sent before the clock tick at which the proxy adopts the new topology: routed by the old one
			}
			if rec.Replica && !rec.ReadOnly {
				vs = append(vs, world.Violation{Sig: "request-before-readonly", Msg: fmt.Sprintf("%q was sent to %s, a replica at that time, on connection %d which had not been switched to READONLY", rec.Raw, rec.Addr, rec.Conn)})
				break
			}
			name := world.Lower(rec.Args[0])
			if sp, ok := world.SpecTable[name]; ok && sp.Write && rec.Replica {
				vs = append(vs, world.Violation{Sig: "write-to-replica:" + name, Msg: fmt.Sprintf("%q was sent to %s, a replica at that time", rec.Raw, rec.Addr)})
				break
			}
		}
		if len(vs) == 0 {
			// a request in flight on a connection that the role change closes may be answered with an error (C15)
			vs = CheckStreams(w, StreamOpts{AnyError: func(ci, j int) bool { return true }})
		}
		return vs
	}
	return sc
}

// c04SlotsDropped: a topology update takes slots away without giving them to anybody (a master failed without promotion,
// DELSLOTS, a range moved to another live master): after the proxy adopted it, a key of a dropped range must not be sent
// to its former owner (it has no owner in the proxy's current topology), a key of a moved range goes to the new owner.
func c04SlotsDropped(kind string, bound int) *world.Scenario {
	before := T3m()
	var after []world.NodeSpec
	var gone, moved string
	switch kind {
	case "range-unowned":
		after, gone = Tgap(), keysGap[0]
	case "range-moved":
		after = []world.NodeSpec{
			{Name: "aaa", Addr: AddrA, Slots: [][2]int{{0, 5460}, {12001, 16383}}},
			{Name: "bbb", Addr: AddrB, Slots: [][2]int{{5461, 10922}}},
			{Name: "ccc", Addr: AddrC, Slots: [][2]int{{10923, 12000}}},
		}
		moved = keysGap[0]
	case "master-failed":
		after = []world.NodeSpec{
			{Name: "aaa", Addr: AddrA, Slots: [][2]int{{0, 5460}}},
			{Name: "bbb", Addr: AddrB, Slots: [][2]int{{5461, 8000}}},
			{Name: "ccc", Addr: AddrC, Slots: [][2]int{{10923, 16383}}, Flags: "fail"},
			{Name: "ddd", Addr: AddrD, Slots: [][2]int{{8001, 10922}}}, // keeps three usable nodes
		}
		gone = keysGap[0]
	}
	sc := &world.Scenario{Nodes: before, Bound: bound, Family: "slots-dropped", Horizon: 400,
		Faults: []world.Fault{{Kind: "topo", Nodes: after}}, Ticks: []time.Duration{1100 * time.Millisecond}}
	sc.TickGate = func(w *world.World) bool { return w.FaultsDone() }
	k := gone + moved
	pre, post, other := GetReq(k), GetReq(k), GetReq(keysA[1])
	if gone != "" {
		pre.Expect = nil  // sent before or after the update, depending on the schedule
		post.Expect = nil // an error of the proxy's choosing (C14 pins that it is an error); what matters here is that no node gets it
	}
	cs := ClientOf([]Req{pre, post, other, post}, false)
	for i := 1; i < 4; i++ {
		cs.Chunks[i].WaitTicks, cs.Chunks[i].WaitReplies = 1, i
	}
	sc.Clients = []world.ClientSpec{cs}
	sc.Name = fmt.Sprintf("C04/slots-dropped/%s/d%d", kind, bound)
	sc.Check = func(w *world.World) []world.Violation {
		var vs []world.Violation
		for _, rec := range w.DataCmds("") {
			if rec.CR < 1 || len(rec.Args) < 2 || string(rec.Args[1]) != k {
				continue
			}
			if gone != "" {
				vs = append(vs, world.Violation{Sig: "routed-to-former-owner", Msg: fmt.Sprintf("%q (slot %d, unowned in the adopted topology) was sent to %s", rec.Raw, world.SpecSlot([]byte(k)), rec.Addr)})
				break
			}
			if rec.Addr != AddrA {
				vs = append(vs, world.Violation{Sig: "wrong-replica-set", Msg: fmt.Sprintf("%q (slot %d, now owned by %s) was sent to %s", rec.Raw, world.SpecSlot([]byte(k)), AddrA, rec.Addr)})
				break
			}
		}
		if len(vs) == 0 {
			vs = CheckStreams(w, StreamOpts{})
			if gone != "" {
				rs, _, _ := world.SplitReplies(w.Clients[0].Received)
				for _, j := range []int{1, 3} {
					if j < len(rs) && !world.IsError(rs[j]) {
						vs = append(vs, world.Violation{Sig: "routed-to-former-owner", Msg: fmt.Sprintf("request %d for a key of an unowned slot was answered %q", j, rs[j])})
					}
				}
			}
		}
		return vs
	}
	return sc
}

func c04Scenarios(tier string) []*world.Scenario {
	var out []*world.Scenario
	thorough := tier == "thorough"
	for _, kind := range []string{"range-unowned", "range-moved", "master-failed"} {
		b := 2
		if thorough {
			b = 3
		}
		out = append(out, c04SlotsDropped(kind, b))
	}
	for _, pw := range []string{"", "secret"} {
		b := 2
		if thorough {
			b = 3
		}
		out = append(out, c04RoleFlip(pw, b))
	}
	// the REAL boot path: seeds = all masters / one master / a master and a replica; password and preconnect on and off
	for _, pw := range []string{"", "secret"} {
		for _, pre := range []bool{false, true} {
			out = append(out, c04RealBoot("seeds-all-masters", T3(), []string{AddrA, AddrB, AddrC}, pw, pre, false, 1))
			out = append(out, c04RealBoot("seeds-one-master", T3m(), []string{AddrB}, pw, pre, false, 1))
			out = append(out, c04RealBoot("seeds-master+replica", T3(), []string{AddrC, AddrA1}, pw, pre, false, 1))
			if pre {
				out = append(out, c04RealBoot("seeds-all-masters", T3(), []string{AddrA, AddrB, AddrC}, pw, pre, true, 1))
			}
		}
	}
	lays := []string{"thirds", "edges"}
	if thorough {
		lays = []string{"thirds", "alternating", "edges"}
	}
	for _, l := range lays {
		for _, cmd := range []string{"get", "set"} {
			out = append(out, c04AllSlots(l, cmd, 0, false))
			if thorough || l == "edges" {
				out = append(out, c04AllSlots(l, cmd, 1, false))
			}
			if thorough || (l == "thirds" && cmd == "get") {
				out = append(out, c04AllSlots(l, cmd, 2, false))
			}
			if thorough || (l == "thirds" && cmd == "set") {
				out = append(out, c04AllSlots(l, cmd, 3, false))
			}
		}
		out = append(out, c04AllSlots(l, "get", 0, true))
	}
	var names []string
	for n, s := range world.SpecTable {
		if !s.Local {
			names = append(names, n)
		}
	}
	sort.Strings(names)
	for _, n := range names {
		for nrep := 0; nrep <= 2; nrep++ {
			for _, dis := range []bool{false, true} {
				slots := []int{0}
				if thorough {
					slots = []int{0, 2730, 5460, 10923, 16383}
				}
				for _, s := range slots {
					out = append(out, c04Command(n, nrep, dis, s, ""))
				}
			}
		}
		if thorough || n == "get" || n == "set" || n == "hscan" || n == "eval" {
			out = append(out, c04Command(n, 2, false, 16383, "secret"))
		}
	}
	for mask := 0; mask < 512; mask++ {
		out = append(out, c04HandshakeCuts(mask, "secret", true))
	}
	for mask := 0; mask < 16; mask++ {
		out = append(out, c04HandshakeCuts(mask, "secret", false))
		out = append(out, c04HandshakeCuts(mask, "", true))
	}
	// the handshake replies and the replies to the first requests arrive in ONE read (a node answers AUTH, READONLY and
	// the pipelined requests in one segment), whole and with the last +OK split off
	for _, pw := range []string{"secret", ""} {
		for _, rep := range []bool{true, false} {
			if pw == "" && !rep {
				continue
			}
			for _, mask := range []int{0, 1 << 2, 1 << 6, 1<<2 | 1<<6} {
				sc := c04HandshakeCuts(mask, pw, rep)
				sc.CoalesceAll = true
				sc.Name += "/coalesced"
				out = append(out, sc)
				sc2 := c04HandshakeCuts(mask, pw, rep)
				sc2.CoalesceChoice, sc2.Bound, sc2.InputEnum = true, 2, false
				sc2.Name += "/coalesce-choice/d2"
				out = append(out, sc2)
			}
		}
	}
	// a replica is re-parented to another master and nothing else changes: reads of its OLD master's slots must no longer
	// reach it (it is outside the owning set), reads of its new master's slots may
	for _, sc := range c20Reparent() {
		sc.Name = strings.Replace(sc.Name, "C20/", "C04/", 1)
		sc.Family = "replica-reparented"
		inner := sc.Final
		sc.Final = func(obs map[string]int) []world.Violation {
			vs := inner(obs)
			for i := range vs {
				vs[i].Sig = "wrong-replica-set"
			}
			return vs
		}
		out = append(out, sc)
	}
	// round 11: passwords made of bytes that mean something to a formatter or to the protocol (the handshake must carry the
	// configured password byte for byte)
	for pi, pw := range []string{"s3cr%t", "100%sure", "50%", "%d%s%v", "a b", "p\r\nw", "{pw}", "\\x"} {
		for _, n := range []string{"get", "set"} {
			sc := c04Command(n, 2, false, 16383, pw)
			sc.Name += fmt.Sprintf("/odd-password%d", pi)
			sc.Family = "odd-passwords"
			out = append(out, sc)
		}
	}
	return out
}

func init() {
	register(&Check{ID: "C02", Level: "model_checking",
		Rule:      "every forwarded single-fragment command of the supported table x allowed argument counts x 3 letter-case variants x rotating argument contents {plain, empty, CRLF, '$-1', binary, 72-byte, embedded RESP, '-1'} (thorough: 1.1k/4.2k/70k/2MiB arguments) x 18 reply shapes (status, errors, integers incl. extremes, null/empty/binary/CRLF bulks, null/empty/nested arrays, 5 kB bulk), with and without password+replica handshakes, as closed-loop batches; for GET/SET/EVAL/HMSET every single cut (thorough: every pair of cuts) of the request and of the reply, each with <= 1 scheduling deviation; slow reader (one reply; a pipeline of replies crossing the 64-byte ring/list boundary of the outbound buffer; three replies released by one vectored write) under every EAGAIN/short-write answer within the bound; handshake replies and first data replies arriving in one read; a request arriving cut after another client died inside a request (FIN/RST, 4 prefix lengths, read caps 32/65536, descriptor reuse), a reply arriving cut over a new connection after the node died inside the previous reply; oracle: node bytes = client bytes modulo case of the command name, client bytes = node reply bytes; non-trivial = scenario with a cut, a deviation or a non-default write answer; distinct = observable outcomes",
		Scenarios: c02Scenarios, BudgetQuick: 100, BudgetThorough: 1500,
		Assumptions: []string{"multi-megabyte arguments are represented by sizes crossing every buffer threshold in the code (64 B caps, 1 KiB ring default, 4 KiB growth step, 64 KiB read buffer) and one 2 MiB value in the thorough tier"}})
	register(&Check{ID: "C04", Level: "model_checking",
		Rule:      "(i) ALL 16384 slots (a brace-free key, a hash-tagged key, and a key whose tag is preceded by a stray closing brace) as a read and as a write through 2-3 slot layouts (thirds, 64 alternating ranges, single-slot ranges at 0/1/5461/5462/16383), replica reads enabled and disabled; (ii) EVERY forwarded command of the supported table x {0,1,2 replicas} x replica reads on/off x slot positions, under EVERY outcome of every random choice (unbounded); (iii) AUTH/READONLY handshake on every new backend connection with the handshake replies under ALL 2^9 segmentations, and coalesced with the replies to the first requests into one read (fixed and as an explorer choice); (iv) a master with open connections demoted to replica by a topology update (role flip), reads sent after the proxy adopted it; (v) a topology update that leaves a slot range without owner (range dropped, master failed without promotion) or moves it to another live master, requests sent after the proxy adopted it; oracle: the receiving node belongs to the replica set owning the specification slot of the key (master for writes, cursor scans, scripts, and always when replica reads are disabled), handshake order AUTH, READONLY, then requests, and no handshake reply surfaces at a client; distinct = observable outcomes",
		Scenarios: c04Scenarios, BudgetQuick: 100, BudgetThorough: 1500,
		Assumptions: []string{"write/read classification is hand-written from the Redis command reference (spec.go)", "corpus keys are brace-free or carry well-formed non-empty hash tags, on which the spec slot function and the proxy's agree (C05 decides the slot function itself)"}})
}
