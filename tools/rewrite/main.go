// Command rewrite produces a `go build -overlay` description that binds the
// verification engine to the *current working tree* of the repository.
//
// For every non-test Go file under <repo>/core that is built on linux (default
// poller), it rewrites ONLY leaf selectors into OS / runtime nondeterminism
// (unix.Read, time.Now, rand.Intn, ...) into calls of the virtual package
// rcproxy/core/vsys, orders map iteration over a few known map fields, drops the
// `go p.monitor()` health goroutine, and puts a vsys.LoopTick() at the head of
// every loop body. All proxy logic is left exactly as it is in the tree.
//
// It then maps the engine sources (vsys, in-package harness files, logging
// stub, driver packages) into the module as virtual files.
package main

import (
	"bytes"
	"encoding/json"
	"flag"
	"fmt"
	"go/ast"
	"go/build"
	"go/parser"
	"go/printer"
	"go/token"
	"os"
	"path/filepath"
	"sort"
	"strconv"
	"strings"
)

const vsysPath = "rcproxy/core/vsys"

// selector rules: import path -> selector -> vsys name
var selRules = map[string]map[string]string{
	"golang.org/x/sys/unix": {
		"Read": "Read", "Write": "Write", "Close": "Close", "Accept": "Accept", "Dup": "Dup",
		"SetNonblock": "SetNonblock", "Writev": "Writev", "Readv": "Readv",
		"EpollCreate1": "EpollCreate1", "Eventfd": "Eventfd", "EpollCtl": "EpollCtl", "EpollWait": "EpollWait",
		"SetsockoptInt": "SetsockoptInt", "SetsockoptLinger": "SetsockoptLinger",
	},
	"time":      {"Now": "Now", "Since": "Since", "NewTicker": "NewTicker", "Sleep": "Sleep", "Ticker": "Ticker"},
	"math/rand": {"Intn": "Intn"},
	"net":       {"DialTimeout": "DialTimeout"},
}

// sync.Pool is replaced by the deterministic LIFO free list in every rewritten file: the request/fragment object pools
// (core/message.go), the ring-buffer and byte-slice pools behind the connection buffers (core/pkg/pool/...), the task and
// poll-attachment pools of the loop. A LIFO free list is a legal sync.Pool and the most adversarial one: whatever state
// an object is handed back with is what the very next Get returns.

// map fields whose iteration order is made deterministic (and explorer-permutable)
var mapFields = map[string]string{ // field name -> key type
	"Body": "Int32", "Frags": "Int32", "Frags2": "Int32", "Fd2Slot": "Int", "ProxyPool": "String", "connections": "Int",
}

// directories under core/ that are not rewritten (real network client, logger which is stubbed)
var skipDirs = []string{"core/pkg/logging", "core/vsys", "core/zz_verif"}

type counts map[string]int

func main() {
	repo := flag.String("repo", "/repo", "repository root")
	eng := flag.String("engine", "/verif/engine", "engine source root")
	out := flag.String("out", "", "output directory (overlay files + overlay.json)")
	flag.Parse()
	if *out == "" {
		fatal("need -out")
	}
	must(os.MkdirAll(*out, 0o755))
	replace := map[string]string{}
	summary := map[string]counts{}

	ctx := build.Default
	ctx.GOOS, ctx.GOARCH = "linux", "amd64"
	ctx.BuildTags = nil
	ctx.CgoEnabled = false

	coreDir := filepath.Join(*repo, "core")
	must(filepath.Walk(coreDir, func(p string, info os.FileInfo, err error) error {
		if err != nil {
			return err
		}
		rel, _ := filepath.Rel(*repo, p)
		if info.IsDir() {
			for _, s := range skipDirs {
				if rel == s {
					return filepath.SkipDir
				}
			}
			return nil
		}
		if !strings.HasSuffix(p, ".go") || strings.HasSuffix(p, "_test.go") {
			return nil
		}
		if ok, _ := ctx.MatchFile(filepath.Dir(p), filepath.Base(p)); !ok {
			return nil
		}
		src, err := os.ReadFile(p)
		if err != nil {
			return err
		}
		res, c, changed, err := rewriteFile(rel, src)
		if err != nil {
			// a file that does not parse is left alone: the compiler will report it
			fmt.Fprintf(os.Stderr, "rewrite: %s: %v (left unchanged)\n", rel, err)
			return nil
		}
		if !changed {
			return nil
		}
		dst := filepath.Join(*out, "repo", rel)
		must(os.MkdirAll(filepath.Dir(dst), 0o755))
		must(os.WriteFile(dst, res, 0o644))
		replace[p] = dst
		summary[rel] = c
		return nil
	}))

	// logging stub replaces the real logger.go
	replace[filepath.Join(*repo, "core/pkg/logging/logger.go")] = filepath.Join(*eng, "inpkg/logging/logger.go")
	// in-package harness files
	addDir := func(srcDir, dstDir string) {
		ents, err := os.ReadDir(srcDir)
		if err != nil {
			return
		}
		for _, e := range ents {
			if e.IsDir() || !strings.HasSuffix(e.Name(), ".go") {
				continue
			}
			replace[filepath.Join(dstDir, e.Name())] = filepath.Join(srcDir, e.Name())
		}
	}
	addDir(filepath.Join(*eng, "inpkg/core"), filepath.Join(*repo, "core"))
	addDir(filepath.Join(*eng, "inpkg/server"), filepath.Join(*repo, "core/server"))
	addDir(filepath.Join(*eng, "inpkg/authip"), filepath.Join(*repo, "core/authip"))
	addDir(filepath.Join(*eng, "vsys"), filepath.Join(*repo, "core/vsys"))
	// driver packages: engine/zz/<pkg>/... -> core/zz_verif/<pkg>/...
	zz := filepath.Join(*eng, "zz")
	_ = filepath.Walk(zz, func(p string, info os.FileInfo, err error) error {
		if err != nil || info.IsDir() || !strings.HasSuffix(p, ".go") {
			return nil
		}
		rel, _ := filepath.Rel(zz, p)
		replace[filepath.Join(*repo, "core/zz_verif", rel)] = p
		return nil
	})

	ov, _ := json.MarshalIndent(map[string]interface{}{"Replace": replace}, "", " ")
	must(os.WriteFile(filepath.Join(*out, "overlay.json"), ov, 0o644))
	sm, _ := json.MarshalIndent(summary, "", " ")
	must(os.WriteFile(filepath.Join(*out, "rewrite_counts.json"), sm, 0o644))
}

func rewriteFile(rel string, src []byte) ([]byte, counts, bool, error) {
	fset := token.NewFileSet()
	f, err := parser.ParseFile(fset, rel, src, parser.ParseComments)
	if err != nil {
		return nil, nil, false, err
	}
	c := counts{}
	// import table: local name -> path
	imps := map[string]string{}
	for _, is := range f.Imports {
		path, _ := strconv.Unquote(is.Path.Value)
		name := path[strings.LastIndex(path, "/")+1:]
		if is.Name != nil {
			name = is.Name.Name
		}
		imps[name] = path
	}
	vsysName := "vsys"
	if _, clash := imps[vsysName]; clash {
		vsysName = "vsys_"
	}
	usesVsys := false

	isPkg := func(x ast.Expr) (string, *ast.Ident) {
		id, ok := x.(*ast.Ident)
		if !ok || id.Obj != nil {
			return "", nil
		}
		return imps[id.Name], id
	}

	// 1a. the pool's health probe (a real network round trip): x.detect() -> vsys.Detect(x.Addr, x.detect)
	if rel == "core/redis_pool.go" {
		ast.Inspect(f, func(n ast.Node) bool {
			ce, ok := n.(*ast.CallExpr)
			if !ok || len(ce.Args) != 0 {
				return true
			}
			se, ok := ce.Fun.(*ast.SelectorExpr)
			if !ok || se.Sel.Name != "detect" {
				return true
			}
			if _, isPkgName := imps[fmt.Sprint(se.X)]; isPkgName {
				return true
			}
			c["detect-call"]++
			usesVsys = true
			ce.Args = []ast.Expr{&ast.SelectorExpr{X: se.X, Sel: ast.NewIdent("Addr")}, &ast.SelectorExpr{X: se.X, Sel: ast.NewIdent("detect")}}
			ce.Fun = &ast.SelectorExpr{X: ast.NewIdent(vsysName), Sel: ast.NewIdent("Detect")}
			return false
		})
	}

	// 1c. the proxy's own redis client (INFO probe of newly discovered nodes, PING health probe): its TCP dial becomes an
	// in-memory connection to the scripted node, everything above the dial is the real client: x.DialContext(ctx, n, a) -> vsys.RedisDial(ctx, n, a)
	if rel == "core/pkg/redis/conn.go" {
		ast.Inspect(f, func(n ast.Node) bool {
			ce, ok := n.(*ast.CallExpr)
			if !ok || len(ce.Args) != 3 {
				return true
			}
			se, ok := ce.Fun.(*ast.SelectorExpr)
			if !ok || se.Sel.Name != "DialContext" {
				return true
			}
			c["redis-dial"]++
			usesVsys = true
			ce.Fun = &ast.SelectorExpr{X: ast.NewIdent(vsysName), Sel: ast.NewIdent("RedisDial")}
			return false
		})
	}

	// 1b. engine.Dial takes the peer address of a new backend connection from the dialled net.Conn; the dial shim hands
	// out a helper socket, so the address is supplied by the simulated kernel: c.RemoteAddr() -> vsys.RemoteAddr(c)
	if rel == "core/engine.go" {
		ast.Inspect(f, func(n ast.Node) bool {
			ce, ok := n.(*ast.CallExpr)
			if !ok || len(ce.Args) != 0 {
				return true
			}
			se, ok := ce.Fun.(*ast.SelectorExpr)
			if !ok || se.Sel.Name != "RemoteAddr" {
				return true
			}
			if _, ok := se.X.(*ast.Ident); !ok {
				return true
			}
			c["dial-remote-addr"]++
			usesVsys = true
			ce.Args = []ast.Expr{se.X}
			ce.Fun = &ast.SelectorExpr{X: ast.NewIdent(vsysName), Sel: ast.NewIdent("RemoteAddr")}
			return false
		})
	}

	// 1d. core.Run creates the listening socket itself; under the harness the listener is the simulated one:
	// initListener(network, addr, options) -> verifInitListener(network, addr, options) (harness file of package core)
	if rel == "core/gnet.go" {
		ast.Inspect(f, func(n ast.Node) bool {
			ce, ok := n.(*ast.CallExpr)
			if !ok {
				return true
			}
			if id, ok := ce.Fun.(*ast.Ident); ok && id.Name == "initListener" {
				c["run-listener"]++
				id.Name = "verifInitListener"
			}
			return true
		})
	}

	// 1. selectors
	ast.Inspect(f, func(n ast.Node) bool {
		se, ok := n.(*ast.SelectorExpr)
		if !ok {
			return true
		}
		path, id := isPkg(se.X)
		if id == nil {
			return true
		}
		if m, ok := selRules[path]; ok {
			if to, ok := m[se.Sel.Name]; ok {
				c[id.Name+"."+se.Sel.Name]++
				id.Name = vsysName
				se.Sel.Name = to
				usesVsys = true
			}
		}
		if path == "sync" && se.Sel.Name == "Pool" {
			c["sync.Pool"]++
			id.Name = vsysName
			usesVsys = true
		}
		return true
	})

	// 2. statements: go p.monitor(), loops
	var fnName string
	var walkBlock func(list []ast.Stmt) []ast.Stmt
	var walkStmt func(s ast.Stmt) ast.Stmt
	tick := func() ast.Stmt {
		usesVsys = true
		return &ast.ExprStmt{X: &ast.CallExpr{Fun: &ast.SelectorExpr{X: ast.NewIdent(vsysName), Sel: ast.NewIdent("LoopTick")}}}
	}
	walkBlock = func(list []ast.Stmt) []ast.Stmt {
		outl := make([]ast.Stmt, 0, len(list))
		for _, s := range list {
			if s2 := walkStmt(s); s2 != nil {
				outl = append(outl, s2)
			}
		}
		return outl
	}
	walkFuncLits := func(n ast.Node) {
		if n == nil {
			return
		}
		ast.Inspect(n, func(m ast.Node) bool {
			if fl, ok := m.(*ast.FuncLit); ok {
				fl.Body.List = walkBlock(fl.Body.List)
				return false
			}
			return true
		})
	}
	walkStmt = func(s ast.Stmt) ast.Stmt {
		switch st := s.(type) {
		case *ast.GoStmt:
			if se, ok := st.Call.Fun.(*ast.SelectorExpr); ok && se.Sel.Name == "monitor" && len(st.Call.Args) == 0 {
				// the health monitor becomes a cooperative thread of the simulated world (not started at all unless
				// the scenario enables threads)
				c["go-monitor-thread"]++
				usesVsys = true
				return &ast.ExprStmt{X: &ast.CallExpr{
					Fun:  &ast.SelectorExpr{X: ast.NewIdent(vsysName), Sel: ast.NewIdent("GoThread")},
					Args: []ast.Expr{&ast.BasicLit{Kind: token.STRING, Value: strconv.Quote("monitor")}, se},
				}}
			}
			if rel == "core/engine.go" {
				// serve() / startEventLoop start the refresh goroutine, the statistics loop and the event-loop goroutine: the
				// harness runs the first and the last itself (under its scheduler), so the go statements only record themselves
				c["go-captured"]++
				usesVsys = true
				return &ast.ExprStmt{X: &ast.CallExpr{
					Fun: &ast.SelectorExpr{X: ast.NewIdent(vsysName), Sel: ast.NewIdent("GoCaptured")},
					Args: []ast.Expr{&ast.FuncLit{Type: &ast.FuncType{Params: &ast.FieldList{}}, Body: &ast.BlockStmt{List: []ast.Stmt{&ast.ExprStmt{X: st.Call}}}}},
				}}
			}
			walkFuncLits(st.Call)
			return st
		case *ast.DeferStmt:
			if rel == "core/gnet.go" {
				if se, ok := st.Call.Fun.(*ast.SelectorExpr); ok && se.Sel.Name == "close" {
					// Run() ends in `defer ln.close()`; under the harness serve() returns at once and the listener stays open
					c["defer-listener-close-skipped"]++
					usesVsys = true
					st.Call = &ast.CallExpr{Fun: &ast.SelectorExpr{X: ast.NewIdent(vsysName), Sel: ast.NewIdent("Skipped")},
						Args: []ast.Expr{&ast.BasicLit{Kind: token.STRING, Value: strconv.Quote("listener.close")}}}
					return st
				}
			}
			if rel == "core/engine.go" {
				if se, ok := st.Call.Fun.(*ast.SelectorExpr); ok && se.Sel.Name == "stop" {
					// serve() ends in `defer eng.stop(e)`, which blocks until shutdown: under the harness serve() returns
					c["defer-stop-skipped"]++
					usesVsys = true
					st.Call = &ast.CallExpr{Fun: &ast.SelectorExpr{X: ast.NewIdent(vsysName), Sel: ast.NewIdent("Skipped")},
						Args: []ast.Expr{&ast.BasicLit{Kind: token.STRING, Value: strconv.Quote("engine.stop")}}}
					return st
				}
			}
			walkFuncLits(st.Call)
			return st
		case *ast.BlockStmt:
			st.List = walkBlock(st.List)
		case *ast.IfStmt:
			walkFuncLits(st.Init)
			walkFuncLits(st.Cond)
			st.Body.List = walkBlock(st.Body.List)
			if st.Else != nil {
				st.Else = walkStmt(st.Else)
			}
		case *ast.SendStmt:
			// a plain (blocking) channel send in proxy code: under the cooperative harness nobody else runs while the event loop
			// is blocked, so a send that cannot complete at once is reported (the loop thread must never block) instead of hanging
			if !strings.HasPrefix(rel, "core/pkg/redis/") {
				c["send-guard"]++
				usesVsys = true
				return &ast.SelectStmt{Body: &ast.BlockStmt{List: []ast.Stmt{
					&ast.CommClause{Comm: st},
					&ast.CommClause{Comm: nil, Body: []ast.Stmt{&ast.ExprStmt{X: &ast.CallExpr{
						Fun:  &ast.SelectorExpr{X: ast.NewIdent(vsysName), Sel: ast.NewIdent("WouldBlock")},
						Args: []ast.Expr{&ast.BasicLit{Kind: token.STRING, Value: strconv.Quote(rel)}}}}}},
				}}}
			}
			return st
		case *ast.ForStmt:
			walkFuncLits(st.Init)
			walkFuncLits(st.Cond)
			walkFuncLits(st.Post)
			st.Body.List = append([]ast.Stmt{tick()}, walkBlock(st.Body.List)...)
			c["loop-tick"]++
		case *ast.RangeStmt:
			walkFuncLits(st.X)
			body := walkBlock(st.Body.List)
			c["loop-tick"]++
			if field, kt, ok := mapRange(st); ok && st.Tok == token.DEFINE {
				c["map-range:"+field]++
				usesVsys = true
				site := rel + ":" + fnName + ":" + field
				keyName := "vk_"
				if id, ok := st.Key.(*ast.Ident); ok && id.Name != "_" {
					keyName = id.Name
				}
				var pre []ast.Stmt
				pre = append(pre, tick())
				if st.Value != nil {
					if vid, ok := st.Value.(*ast.Ident); ok && vid.Name != "_" {
						// v, ok_ := M[k]; if !ok_ { continue }
						pre = append(pre,
							&ast.AssignStmt{Lhs: []ast.Expr{ast.NewIdent(vid.Name), ast.NewIdent("vok_")}, Tok: token.DEFINE,
								Rhs: []ast.Expr{&ast.IndexExpr{X: st.X, Index: ast.NewIdent(keyName)}}},
							&ast.IfStmt{Cond: &ast.UnaryExpr{Op: token.NOT, X: ast.NewIdent("vok_")}, Body: &ast.BlockStmt{List: []ast.Stmt{&ast.BranchStmt{Tok: token.CONTINUE}}}},
							&ast.AssignStmt{Lhs: []ast.Expr{ast.NewIdent("_")}, Tok: token.ASSIGN, Rhs: []ast.Expr{ast.NewIdent(vid.Name)}},
						)
					}
				}
				pre = append(pre, &ast.AssignStmt{Lhs: []ast.Expr{ast.NewIdent("_")}, Tok: token.ASSIGN, Rhs: []ast.Expr{ast.NewIdent(keyName)}})
				st.Body.List = append(pre, body...)
				call := &ast.CallExpr{Fun: &ast.SelectorExpr{X: ast.NewIdent(vsysName), Sel: ast.NewIdent("Keys" + kt)},
					Args: []ast.Expr{st.X, &ast.BasicLit{Kind: token.STRING, Value: strconv.Quote(site)}}}
				st.Key = ast.NewIdent("_")
				st.Value = ast.NewIdent(keyName)
				st.X = call
				return st
			}
			st.Body.List = append([]ast.Stmt{tick()}, body...)
		case *ast.SwitchStmt:
			walkFuncLits(st.Init)
			walkFuncLits(st.Tag)
			for _, cc := range st.Body.List {
				cl := cc.(*ast.CaseClause)
				cl.Body = walkBlock(cl.Body)
			}
		case *ast.TypeSwitchStmt:
			for _, cc := range st.Body.List {
				cl := cc.(*ast.CaseClause)
				cl.Body = walkBlock(cl.Body)
			}
		case *ast.SelectStmt:
			for _, cc := range st.Body.List {
				cl := cc.(*ast.CommClause)
				cl.Body = walkBlock(cl.Body)
			}
		case *ast.LabeledStmt:
			st.Stmt = walkStmt(st.Stmt)
		default:
			walkFuncLits(s)
		}
		return s
	}
	for _, d := range f.Decls {
		switch dd := d.(type) {
		case *ast.FuncDecl:
			if dd.Body != nil {
				fnName = dd.Name.Name
				dd.Body.List = walkBlock(dd.Body.List)
			}
		case *ast.GenDecl:
			fnName = "init"
			walkFuncLits(dd)
		}
	}

	// 2b. package-level variables of basic type (counters, flags, cached strings): the explorer runs many executions
	// in one process, so such state has to start every execution from its initial value, as it does in a fresh process
	var resets []string
	for _, d := range f.Decls {
		gd, ok := d.(*ast.GenDecl)
		if !ok || gd.Tok != token.VAR {
			continue
		}
		for _, sp := range gd.Specs {
			vs := sp.(*ast.ValueSpec)
			tn := ""
			if vs.Type != nil {
				id, ok := vs.Type.(*ast.Ident)
				if !ok || !basicTypes[id.Name] {
					continue
				}
				tn = id.Name
			}
			switch {
			case len(vs.Values) == 0 && tn != "":
				for _, n := range vs.Names {
					if n.Name != "_" {
						resets = append(resets, fmt.Sprintf("{ var z %s; %s = z }", tn, n.Name))
					}
				}
			case len(vs.Values) == len(vs.Names):
				for i, n := range vs.Names {
					if lit, ok := literalText(vs.Values[i]); ok && n.Name != "_" {
						resets = append(resets, fmt.Sprintf("%s = %s", n.Name, lit))
					}
				}
			}
		}
	}
	if len(resets) > 0 {
		c["global-reset"] += len(resets)
		usesVsys = true
	}

	if len(c) == 0 {
		return nil, c, false, nil
	}

	// 3. imports: add vsys, blank the unused
	used := map[string]bool{}
	ast.Inspect(f, func(n ast.Node) bool {
		if se, ok := n.(*ast.SelectorExpr); ok {
			if id, ok := se.X.(*ast.Ident); ok && id.Obj == nil {
				used[id.Name] = true
			}
		}
		return true
	})
	for _, is := range f.Imports {
		path, _ := strconv.Unquote(is.Path.Value)
		name := path[strings.LastIndex(path, "/")+1:]
		if is.Name != nil {
			name = is.Name.Name
		}
		if name == "_" || name == "." {
			continue
		}
		if _, ours := selRules[path]; !ours && path != "sync" {
			continue // only imports whose uses we may have removed can have become unused
		}
		if !used[name] {
			is.Name = ast.NewIdent("_")
		}
	}
	if usesVsys {
		spec := &ast.ImportSpec{Name: ast.NewIdent(vsysName), Path: &ast.BasicLit{Kind: token.STRING, Value: strconv.Quote(vsysPath)}}
		gd := &ast.GenDecl{Tok: token.IMPORT, Specs: []ast.Spec{spec}}
		f.Decls = append([]ast.Decl{gd}, f.Decls...)
	}

	// 4. print without comments, keep build constraints
	var hdr bytes.Buffer
	for _, line := range strings.Split(string(src), "\n") {
		t := strings.TrimSpace(line)
		if strings.HasPrefix(t, "package ") {
			break
		}
		if strings.HasPrefix(t, "//go:build") || strings.HasPrefix(t, "// +build") {
			hdr.WriteString(t + "\n")
		}
	}
	if hdr.Len() > 0 {
		hdr.WriteString("\n")
	}
	f.Comments = nil
	f.Doc = nil
	var buf bytes.Buffer
	buf.Write(hdr.Bytes())
	cfg := printer.Config{Mode: printer.UseSpaces | printer.TabIndent, Tabwidth: 8}
	if err := cfg.Fprint(&buf, fset, f); err != nil {
		return nil, nil, false, err
	}
	if len(resets) > 0 {
		fmt.Fprintf(&buf, "\nfunc init() {\n\t%s.OnReset(func() {\n", vsysName)
		for _, r := range resets {
			fmt.Fprintf(&buf, "\t\t%s\n", r)
		}
		buf.WriteString("\t})\n}\n")
	}
	return buf.Bytes(), c, true, nil
}

var basicTypes = map[string]bool{"int": true, "int8": true, "int16": true, "int32": true, "int64": true, "uint": true, "uint8": true,
	"uint16": true, "uint32": true, "uint64": true, "uintptr": true, "bool": true, "string": true, "float32": true, "float64": true, "byte": true, "rune": true}

// literalText: the source text of a literal initialiser (number, string, char, true/false, signed number)
func literalText(e ast.Expr) (string, bool) {
	switch x := e.(type) {
	case *ast.BasicLit:
		return x.Value, true
	case *ast.Ident:
		if x.Name == "true" || x.Name == "false" {
			return x.Name, true
		}
	case *ast.UnaryExpr:
		if bl, ok := x.X.(*ast.BasicLit); ok && (x.Op == token.SUB || x.Op == token.ADD) {
			return x.Op.String() + bl.Value, true
		}
	}
	return "", false
}

func mapRange(st *ast.RangeStmt) (string, string, bool) {
	var name string
	switch x := st.X.(type) {
	case *ast.SelectorExpr:
		name = x.Sel.Name
	case *ast.Ident:
		name = x.Name
	default:
		return "", "", false
	}
	kt, ok := mapFields[name]
	return name, kt, ok
}

func must(err error) {
	if err != nil {
		fatal(err.Error())
	}
}

func fatal(s string) {
	fmt.Fprintln(os.Stderr, "rewrite:", s)
	os.Exit(2)
}

var _ = sort.Strings
