// vworker is the verification driver, built inside module rcproxy through the overlay.
//
//	vworker check  -id C01 -tier quick -root /verif      parent: shards, merges, classifies, writes evidence
//	vworker run    -id C01 -tier quick -shard i -n N -out f.json
//	vworker replay -root /verif <file>
package main

import (
	"encoding/json"
	"flag"
	"fmt"
	"os"
	"os/exec"
	"path/filepath"
	"runtime"
	"runtime/debug"
	"runtime/pprof"
	"sort"
	"strconv"
	"strings"
	"syscall"
	"time"

	"rcproxy/core/zz_verif/checks"
	"rcproxy/core/zz_verif/explore"
	"rcproxy/core/zz_verif/world"
)

func main() {
	// an invalid memory access inside proxy code (e.g. a write into read-only memory) becomes a panic that the
	// harness recovers as "the proxy crashed", instead of killing this process
	debug.SetPanicOnFault(true)
	if len(os.Args) < 2 {
		fmt.Fprintln(os.Stderr, "usage: vworker check|run|replay ...")
		os.Exit(2)
	}
	switch os.Args[1] {
	case "run":
		os.Exit(runShard(os.Args[2:]))
	case "check":
		os.Exit(runCheck(os.Args[2:]))
	case "replay":
		os.Exit(runReplay(os.Args[2:]))
	case "one":
		fs := flag.NewFlagSet("one", flag.ExitOnError)
		fs.String("id", "", "")
		name := fs.String("name", "", "")
		mb := fs.Int("rlimit-mb", 4096, "")
		fs.Parse(os.Args[2:])
		lim := syscall.Rlimit{Cur: uint64(*mb) << 20, Max: uint64(*mb) << 20}
		if err := syscall.Setrlimit(syscall.RLIMIT_AS, &lim); err != nil {
			fmt.Println("setrlimit:", err)
			os.Exit(4)
		}
		os.Exit(checks.RunOneC12(*name))
	case "e3":
		os.Exit(runE3(os.Args[2:]))
	case "list":
		var ids []string
		for id := range checks.Registry {
			ids = append(ids, id)
		}
		sort.Strings(ids)
		fmt.Println(strings.Join(ids, " "))
	default:
		fmt.Fprintln(os.Stderr, "unknown subcommand", os.Args[1])
		os.Exit(2)
	}
}

func budget(c *checks.Check, tier string) time.Duration {
	b := c.BudgetQuick
	if tier == "thorough" {
		b = c.BudgetThorough
	}
	if v := os.Getenv("VERIF_BUDGET_S"); v != "" {
		if n, err := strconv.Atoi(v); err == nil {
			b = n
		}
	}
	if b == 0 {
		b = 60
	}
	return time.Duration(b) * time.Second
}

// ---------------------------------------------------------------------------------------------

func runShard(args []string) (code int) {
	fs := flag.NewFlagSet("run", flag.ExitOnError)
	id := fs.String("id", "", "")
	tier := fs.String("tier", "quick", "")
	shard := fs.Int("shard", 0, "")
	n := fs.Int("n", 1, "")
	out := fs.String("out", "", "")
	fs.Parse(args)
	c := checks.Registry[*id]
	if c == nil {
		fmt.Fprintln(os.Stderr, "unknown check", *id)
		return 2
	}
	runtime.GOMAXPROCS(2)
	// an invalid memory access inside proxy code (e.g. a write into read-only memory) becomes a panic that the
	// harness recovers as "the proxy crashed", instead of killing the worker
	debug.SetPanicOnFault(true)
	if pf := os.Getenv("VERIF_PROF"); pf != "" {
		f, _ := os.Create(pf)
		pprof.StartCPUProfile(f)
		defer pprof.StopCPUProfile()
	}
	t0 := time.Now()
	deadline := t0.Add(budget(c, *tier))
	res := &checks.Result{Property: *id, Tier: *tier, Shard: *shard, Exhaustive: true, BoundDone: map[string]int{}}
	defer func() {
		if r := recover(); r != nil {
			if he, ok := r.(explore.HarnessError); ok {
				res.HarnessErr = he.Msg
			} else {
				res.HarnessErr = fmt.Sprintf("worker panic: %v", r)
				fmt.Fprintf(os.Stderr, "worker panic: %v\n", r)
				panic(r)
			}
		}
		res.WallS = time.Since(t0).Seconds()
		b, _ := json.Marshal(res)
		if err := os.WriteFile(*out, b, 0o644); err != nil {
			fmt.Fprintln(os.Stderr, err)
			code = 2
		}
	}()
	if c.Scenarios != nil {
		scs := c.Scenarios(*tier)
		for _, sc := range scs {
			checks.ApplyConfigVariant(sc)
		}
		ex := explore.New(deadline)
		// thorough tier: a first pass explores every scenario of the shard with its bound lowered to 2, the second
		// pass with the full bound; if the budget ends during the second pass every scenario has still been covered
		// completely at the lower bound (reported as such), instead of the tail of the list never being started
		passes := []int{-9}
		if *tier == "thorough" {
			passes = []int{2, -9}
		}
		for pi, pb := range passes {
			for i, sc := range scs {
				if i%*n != *shard {
					continue
				}
				full := sc.Bound
				if pb != -9 {
					if full >= 0 && full <= pb {
						continue // the full pass will cover it anyway
					}
					sc.Bound = pb
					sc.Family += fmt.Sprintf(" [pass d<=%d]", pb)
				} else if pi > 0 && full >= 0 && full <= passes[0] {
					// not explored in the first pass
				}
				if time.Now().After(deadline) {
					ex.Stats.Capped = append(ex.Stats.Capped, sc.Name+fmt.Sprintf(" (not started at bound %d)", sc.Bound))
				} else {
					ex.Explore(sc)
				}
				if pb != -9 {
					sc.Bound = full
					sc.Family = strings.TrimSuffix(sc.Family, fmt.Sprintf(" [pass d<=%d]", pb))
				}
			}
		}
		st := ex.Stats
		res.Execs, res.Transitions, res.States, res.Steps, res.MaxDepth, res.Replayed = st.Execs, st.Transitions, st.States, st.Steps, st.MaxDepth, st.Replayed
		res.Scenarios, res.Capped, res.BoundDone, res.HorizonHits, res.Samples = st.Scenarios, st.Capped, st.BoundDone, st.HorizonHits, st.Samples
		for k := range st.Outcomes {
			res.Outcomes = append(res.Outcomes, k)
		}
		for k := range st.Nontrivial {
			res.Nontrivial = append(res.Nontrivial, k)
		}
		for _, f := range ex.Found {
			res.Found = append(res.Found, f)
		}
		if len(st.Capped) > 0 {
			res.Exhaustive = false
		}
	}
	if c.Gen != nil {
		ex := explore.New(deadline)
		c.Gen(*tier, *shard, *n, func(sc *world.Scenario) bool {
			if time.Now().After(deadline) {
				ex.Stats.Capped = append(ex.Stats.Capped, "generator stopped at "+sc.Name)
				return false
			}
			checks.ApplyConfigVariant(sc)
			ex.Explore(sc)
			return true
		})
		st := ex.Stats
		res.Execs += st.Execs
		res.Transitions += st.Transitions
		res.States += st.States
		res.Steps += st.Steps
		res.Replayed += st.Replayed
		res.Scenarios += st.Scenarios
		res.HorizonHits += st.HorizonHits
		if st.MaxDepth > res.MaxDepth {
			res.MaxDepth = st.MaxDepth
		}
		res.Capped = append(res.Capped, st.Capped...)
		res.Samples = append(res.Samples, st.Samples...)
		for k, v := range st.BoundDone {
			res.BoundDone[k] = v
		}
		for k := range st.Outcomes {
			res.Outcomes = append(res.Outcomes, k)
		}
		for k := range st.Nontrivial {
			res.Nontrivial = append(res.Nontrivial, k)
		}
		for _, f := range ex.Found {
			res.Found = append(res.Found, f)
		}
		if len(st.Capped) > 0 {
			res.Exhaustive = false
		}
	}
	if c.Seq != nil {
		c.Seq(*tier, *shard, *n, deadline, res)
	}
	return 0
}

// ---------------------------------------------------------------------------------------------

type knownFinding struct {
	Property  string `json:"property"`
	Signature string `json:"signature"`
	Family    string `json:"family,omitempty"`
	WhatFails string `json:"what_fails"`
	Status    string `json:"status"`
	Commit    string `json:"commit,omitempty"`
}

func loadKnown(root string) []knownFinding {
	b, err := os.ReadFile(filepath.Join(root, "known_findings.json"))
	if err != nil {
		return nil
	}
	var k struct {
		Findings []knownFinding `json:"findings"`
	}
	if err := json.Unmarshal(b, &k); err != nil {
		fmt.Fprintln(os.Stderr, "known_findings.json:", err)
		return nil
	}
	return k.Findings
}

func match(pat, s string) bool {
	if pat == "" {
		return true
	}
	if strings.HasSuffix(pat, "*") {
		return strings.HasPrefix(s, strings.TrimSuffix(pat, "*"))
	}
	return pat == s
}

func runCheck(args []string) int {
	fs := flag.NewFlagSet("check", flag.ExitOnError)
	id := fs.String("id", "", "")
	tier := fs.String("tier", "quick", "")
	root := fs.String("root", "/verif", "")
	par := fs.Int("par", 0, "")
	fs.Parse(args)
	if t := os.Getenv("VERIF_TIER"); t == "quick" || t == "thorough" {
		*tier = t
	}
	c := checks.Registry[*id]
	if c == nil {
		fmt.Fprintln(os.Stderr, "unknown check", *id)
		return 2
	}
	seed := 0
	if v := os.Getenv("VERIF_SEED"); v != "" {
		seed, _ = strconv.Atoi(v)
	}
	n := *par
	if n == 0 {
		n = runtime.NumCPU()
		if n > 16 {
			n = 16
		}
	}
	t0 := time.Now()
	tmp, err := os.MkdirTemp(filepath.Join(*root, ".work"), "shards-")
	if err != nil {
		fmt.Fprintln(os.Stderr, err)
		return 2
	}
	defer os.RemoveAll(tmp)
	type proc struct {
		cmd *exec.Cmd
		out string
	}
	var procs []proc
	for i := 0; i < n; i++ {
		// VERIF_SEED only permutes which shard index a worker process gets
		sh := (i + seed) % n
		out := filepath.Join(tmp, fmt.Sprintf("%d.json", sh))
		cmd := exec.Command(os.Args[0], "run", "-id", *id, "-tier", *tier, "-shard", strconv.Itoa(sh), "-n", strconv.Itoa(n), "-out", out)
		cmd.Stderr = os.Stderr
		cmd.Stdout = os.Stderr
		cmd.Env = append(os.Environ(), "GOMAXPROCS=2", "GOMEMLIMIT=3GiB")
		if err := cmd.Start(); err != nil {
			fmt.Fprintln(os.Stderr, err)
			return 2
		}
		procs = append(procs, proc{cmd, out})
	}
	merged := &checks.Result{Property: *id, Tier: *tier, Exhaustive: true, BoundDone: map[string]int{}, Extra: map[string]interface{}{}}
	outcomes, nontriv := map[uint64]struct{}{}, map[uint64]struct{}{}
	var crashed []string
	for _, p := range procs {
		werr := p.cmd.Wait()
		b, rerr := os.ReadFile(p.out)
		if rerr != nil {
			crashed = append(crashed, fmt.Sprintf("%s: worker died (%v) without a result", filepath.Base(p.out), werr))
			continue
		}
		var r checks.Result
		if err := json.Unmarshal(b, &r); err != nil {
			crashed = append(crashed, err.Error())
			continue
		}
		if r.HarnessErr != "" {
			crashed = append(crashed, r.HarnessErr)
		}
		merged.Execs += r.Execs
		merged.Transitions += r.Transitions
		merged.States += r.States
		merged.Steps += r.Steps
		merged.Replayed += r.Replayed
		merged.Scenarios += r.Scenarios
		merged.HorizonHits += r.HorizonHits
		if r.MaxDepth > merged.MaxDepth {
			merged.MaxDepth = r.MaxDepth
		}
		merged.Capped = append(merged.Capped, r.Capped...)
		for k, v := range r.BoundDone {
			if old, ok := merged.BoundDone[k]; !ok || v == -2 || (old != -2 && old != v && (old == -1 || (v >= 0 && v < old))) {
				merged.BoundDone[k] = v
			}
		}
		if len(merged.Samples) < 6 {
			merged.Samples = append(merged.Samples, r.Samples...)
		}
		merged.Found = append(merged.Found, r.Found...)
		merged.Notes = append(merged.Notes, r.Notes...)
		if !r.Exhaustive {
			merged.Exhaustive = false
		}
		for _, k := range r.Outcomes {
			outcomes[k] = struct{}{}
		}
		for _, k := range r.Nontrivial {
			nontriv[k] = struct{}{}
		}
		for k, v := range r.Extra {
			if f, ok := v.(float64); ok {
				if old, ok := merged.Extra[k].(float64); ok {
					merged.Extra[k] = old + f
				} else {
					merged.Extra[k] = f
				}
			} else if _, ok := merged.Extra[k]; !ok {
				merged.Extra[k] = v
			}
		}
	}
	if len(crashed) > 0 {
		for _, c := range crashed {
			fmt.Println("HARNESS-ERROR:", c)
		}
		return 2
	}

	// classify
	known := loadKnown(*root)
	sort.Slice(merged.Found, func(i, j int) bool {
		a, b := merged.Found[i], merged.Found[j]
		if a.Sig != b.Sig {
			return a.Sig < b.Sig
		}
		if a.Devs != b.Devs {
			return a.Devs < b.Devs
		}
		return a.Scenario < b.Scenario
	})
	seenKnown := map[string]bool{}
	seenViol := map[string]bool{}
	exit := 0
	nviol := 0
	os.MkdirAll(filepath.Join(*root, "replays"), 0o755)
	for _, f := range merged.Found {
		var kf *knownFinding
		for i := range known {
			k := &known[i]
			if k.Property == *id && k.Status == "open" && match(k.Signature, f.Sig) && match(k.Family, f.Family) {
				kf = k
				break
			}
		}
		if kf != nil {
			key := kf.Signature + "|" + kf.Family
			if !seenKnown[key] {
				seenKnown[key] = true
				fmt.Printf("KNOWN-FINDING: property=%s %s [signature %s; e.g. %s]\n", *id, kf.WhatFails, f.Sig, f.Scenario)
			}
			continue
		}
		nviol++
		if seenViol[f.Sig] {
			continue
		}
		seenViol[f.Sig] = true
		path := writeReplay(*root, c, *tier, f)
		fmt.Printf("VIOLATION property=%s replay=%s\n", *id, path)
		fmt.Printf("  signature=%s scenario=%s deviations=%d\n  %s\n", f.Sig, f.Scenario, f.Devs, strings.ReplaceAll(f.Msg, "\n", "\n  "))
		exit = 1
	}

	writeEvidence(*root, c, *tier, seed, merged, len(outcomes), len(nontriv), nviol, time.Since(t0).Seconds())
	fmt.Printf("%s %s: %d scenarios/inputs, %d executions, %d transitions, %d distinct outcomes (%d non-trivial), exhaustive=%v, %.1fs\n",
		*id, *tier, merged.Scenarios, merged.Execs, merged.Transitions, len(outcomes), len(nontriv), merged.Exhaustive, time.Since(t0).Seconds())
	return exit
}

func sanitize(s string) string {
	return strings.Map(func(r rune) rune {
		if (r >= 'a' && r <= 'z') || (r >= 'A' && r <= 'Z') || (r >= '0' && r <= '9') || r == '-' || r == '_' || r == '.' {
			return r
		}
		return '_'
	}, s)
}

type replayFile struct {
	Property string   `json:"property"`
	Tier     string   `json:"tier"`
	Sig      string   `json:"signature"`
	Scenario string   `json:"scenario"`
	Family   string   `json:"family"`
	Choices  []int    `json:"choices"`
	Input    string   `json:"input,omitempty"`
	Msg      string   `json:"message"`
	Trace    []string `json:"trace,omitempty"`
	Log      []string `json:"proxy_log,omitempty"`
	Observed []string `json:"observed,omitempty"`
}

func findScenario(c *checks.Check, tier, name string) *world.Scenario {
	if c.FromName != nil {
		if sc := c.FromName(name); sc != nil {
			checks.ApplyConfigVariant(sc)
			return sc
		}
	}
	if c.Scenarios == nil {
		return nil
	}
	for _, t := range []string{tier, "quick", "thorough"} {
		for _, sc := range c.Scenarios(t) {
			if sc.Name == name {
				checks.ApplyConfigVariant(sc)
				return sc
			}
		}
	}
	return nil
}

func writeReplay(root string, c *checks.Check, tier string, f *explore.Found) string {
	rf := replayFile{Property: c.ID, Tier: tier, Sig: f.Sig, Scenario: f.Scenario, Family: f.Family, Choices: f.Choices, Msg: f.Msg, Observed: f.Observed}
	if sc := findScenario(c, tier, f.Scenario); sc != nil {
		rf.Trace, rf.Log, rf.Observed, _ = explore.Trace(sc, f.Choices)
	} else {
		rf.Input = f.Scenario
	}
	path := filepath.Join(root, "replays", sanitize(c.ID+"-"+f.Sig)+".json")
	b, _ := json.MarshalIndent(rf, "", " ")
	os.WriteFile(path, b, 0o644)
	return path
}

func runReplay(args []string) int {
	fs := flag.NewFlagSet("replay", flag.ExitOnError)
	fs.String("root", "/verif", "")
	fs.Parse(args)
	if fs.NArg() < 1 {
		fmt.Fprintln(os.Stderr, "usage: vworker replay <file>")
		return 2
	}
	b, err := os.ReadFile(fs.Arg(0))
	if err != nil {
		fmt.Fprintln(os.Stderr, err)
		return 2
	}
	var rf replayFile
	if err := json.Unmarshal(b, &rf); err != nil {
		fmt.Fprintln(os.Stderr, err)
		return 2
	}
	c := checks.Registry[rf.Property]
	if c == nil {
		fmt.Fprintln(os.Stderr, "unknown property", rf.Property)
		return 2
	}
	if sc := findScenario(c, rf.Tier, rf.Scenario); sc != nil {
		tr, lg, obs, viols := explore.Trace(sc, rf.Choices)
		fmt.Println("scenario:", sc.Name)
		fmt.Println("choices:", rf.Choices)
		fmt.Println("--- trace")
		fmt.Println(strings.Join(tr, "\n"))
		fmt.Println("--- proxy log")
		fmt.Println(strings.Join(lg, "\n"))
		fmt.Println("--- observed")
		fmt.Println(strings.Join(obs, "\n"))
		for _, v := range viols {
			fmt.Printf("--- oracle: %s: %s\n", v.Sig, v.Msg)
		}
		if len(viols) > 0 {
			fmt.Printf("VIOLATION property=%s replay=%s\n", rf.Property, fs.Arg(0))
			return 1
		}
		fmt.Println("no violation on this tree")
		return 0
	}
	if rep, ok := checks.SeqReplay[rf.Property]; ok {
		msg, bad := rep(rf.Input)
		fmt.Println(msg)
		if bad {
			fmt.Printf("VIOLATION property=%s replay=%s\n", rf.Property, fs.Arg(0))
			return 1
		}
		return 0
	}
	fmt.Fprintln(os.Stderr, "scenario not found:", rf.Scenario)
	return 2
}

// runE3 replays default schedules of eligible scenarios against the UNMODIFIED proxy binary over real sockets
// and compares the observable outcome with the simulated one. Conformance evidence only: never a verdict.
func runE3(args []string) int {
	fs := flag.NewFlagSet("e3", flag.ExitOnError)
	proxy := fs.String("proxy", "", "path of the real proxy binary")
	ids := fs.String("ids", "C01,C02,C06,C07,C08,C11,C13,C17", "checks whose scenarios are replayed")
	per := fs.Int("per", 40, "max scenarios per check")
	root := fs.String("root", "/verif", "")
	tier := fs.String("tier", "quick", "")
	fs.Parse(args)
	type row struct {
		Check, Scenario, Result, Detail string
	}
	var rows []row
	total, agree, mismatch, unconfirmed := 0, 0, 0, 0
	t0 := time.Now()
	for _, id := range strings.Split(*ids, ",") {
		c := checks.Registry[id]
		if c == nil || c.Scenarios == nil {
			continue
		}
		var el []*world.Scenario
		for _, sc := range c.Scenarios(*tier) {
			if sc.E3Eligible() {
				el = append(el, sc)
			}
		}
		// deterministic thinning: every k-th eligible scenario
		step := 1
		if len(el) > *per {
			step = len(el) / *per
		}
		groups := map[string][]*world.Scenario{}
		var order []string
		for i := 0; i < len(el); i += step {
			k := el[i].GroupKey()
			if _, ok := groups[k]; !ok {
				order = append(order, k)
			}
			groups[k] = append(groups[k], el[i])
		}
		for _, k := range order {
			scs := groups[k]
			rc, err := world.StartReal(scs[0], *proxy)
			if err != nil {
				for _, sc := range scs {
					rows = append(rows, row{id, sc.Name, "not-confirmed", "proxy start: " + err.Error()})
					unconfirmed++
					total++
				}
				continue
			}
			for _, sc := range scs {
				total++
				sim := world.SimOutcome(world.Execute(sc, func(string, int) int { return 0 }))
				real, err := rc.Replay(sc)
				if err != nil {
					rows = append(rows, row{id, sc.Name, "not-confirmed", err.Error()})
					unconfirmed++
					continue
				}
				if d := sim.Diff(real); d != "" {
					rows = append(rows, row{id, sc.Name, "MISMATCH", d})
					mismatch++
					fmt.Printf("E3-MISMATCH %s %s: %s\n", id, sc.Name, d)
				} else {
					agree++
					if agree <= 5 {
						rows = append(rows, row{id, sc.Name, "agree", ""})
					}
				}
			}
			rc.Stop()
		}
	}
	rep := map[string]interface{}{
		"what":            "default schedules replayed against the unmodified proxy binary over real TCP sockets (fake nodes = the same node model); outcome = client byte streams + per-node command multisets",
		"scenarios":       total,
		"agree":           agree,
		"mismatch":        mismatch,
		"not_confirmed":   unconfirmed,
		"wall_s":          time.Since(t0).Seconds(),
		"rows":            rows,
		"never_a_verdict": true,
	}
	b, _ := json.MarshalIndent(rep, "", " ")
	os.MkdirAll(filepath.Join(*root, "conformance"), 0o755)
	os.WriteFile(filepath.Join(*root, "conformance", "e3_report.json"), b, 0o644)
	fmt.Printf("E3: %d scenarios replayed on the real binary: %d agree, %d mismatch, %d not confirmed, %.1fs\n", total, agree, mismatch, unconfirmed, time.Since(t0).Seconds())
	return 0
}

func writeEvidence(root string, c *checks.Check, tier string, seed int, m *checks.Result, nOut, nNon, nviol int, wall float64) {
	samples := []interface{}{}
	for _, s := range m.Samples {
		samples = append(samples, s)
	}
	if len(samples) == 0 {
		samples = append(samples, "(no sample recorded)")
	}
	if v, ok := m.Extra["distinct_nontrivial_override"].(float64); ok {
		nNon = int(v)
		delete(m.Extra, "distinct_nontrivial_override")
	}
	cov := map[string]interface{}{
		"evaluations":                   m.Execs,
		"distinct_nontrivial":           nNon,
		"distinct_outcomes":             nOut,
		"rule":                          c.Rule,
		"samples":                       samples,
		"states":                        m.States,
		"transitions":                   m.Transitions,
		"traces_validated_against_impl": m.Replayed,
		"traces_validated_note":         "every execution runs the real implementation (no separate model); this counts executions re-run from their recorded choice list with identical observations (determinism contract)",
		"exhaustive":                    m.Exhaustive,
		"scenarios":                     m.Scenarios,
		"scheduling_steps":              m.Steps,
		"max_choice_depth":              m.MaxDepth,
		"completed_bound_per_family":    m.BoundDone,
		"capped":                        m.Capped,
		"horizon_hits":                  m.HorizonHits,
		"notes":                         m.Notes,
	}
	for k, v := range m.Extra {
		cov[k] = v
	}
	ev := map[string]interface{}{
		"property_id": c.ID,
		"tier":        tier,
		"seed":        seed,
		"level":       c.Level,
		"coverage":    cov,
		"assumptions": c.Assumptions,
		"wall_s":      wall,
		"violations":  nviol,
	}
	b, _ := json.MarshalIndent(ev, "", " ")
	dir := filepath.Join(root, "evidence")
	if d := os.Getenv("VERIF_EVIDENCE_DIR"); d != "" {
		dir = d // runs against scratch worktrees (seeded changes) must not overwrite the evidence of the real tree
	}
	os.MkdirAll(dir, 0o755)
	os.WriteFile(filepath.Join(dir, c.ID+".json"), b, 0o644)
}
