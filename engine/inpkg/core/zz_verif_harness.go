// Verification harness file overlaid into package core. It contains no proxy logic:
// it boots the real engine/eventloop on the simulated kernel (mirroring serve()+start()),
// resets package globals between executions and exposes read-only observers.
package core

import (
	"errors"
	"fmt"
	"net"
	"runtime"
	"runtime/debug"
	"sort"
	"strings"
	"sync"

	"github.com/petar/GoLLRB/llrb"

	"rcproxy/core/internal/netpoll"
	"rcproxy/core/pkg/redis"
	"rcproxy/core/vsys"
)

// InfoFn answers the INFO probe the refresh code sends to newly discovered nodes.
type VerifInfoFn func(addr string) (*redis.Info, error)

type verifWrapper struct{ fn VerifInfoFn }
type verifRedis struct {
	fn   VerifInfoFn
	addr string
}

// VerifRealProbe: INFO probes of newly discovered nodes go through the REAL redis client (core/pkg/redis: dial, AUTH, INFO,
// reply parsing) over an in-memory connection to the scripted node; only the harness's own barrier addresses (10.255.x)
// keep the stub. Off: the stub answers everything (histories that need per-message INFO answers set it themselves).
var VerifRealProbe = true

func (w verifWrapper) Dial(a, p string, opts ...redis.DialOption) (redis.Conn, error) {
	if VerifRealProbe && !strings.HasPrefix(a, "10.255.") {
		return redis.Dial(a, p, opts...)
	}
	if w.fn != nil {
		if _, err := w.fn("dial:" + a); err != nil {
			return nil, err
		}
	}
	return verifRedis{w.fn, a}, nil
}
func (verifRedis) Do(string, ...interface{}) (interface{}, error) { return nil, nil }
func (r verifRedis) Info() (*redis.Info, error) {
	if r.fn == nil {
		return &redis.Info{MasterLinkStatus: "up", Version: "6.0.0"}, nil
	}
	return r.fn(r.addr)
}
func (verifRedis) Send(string, ...interface{}) error { return nil }
func (verifRedis) Flush() error                      { return nil }
func (verifRedis) Receive() (interface{}, error)     { return nil, nil }
func (verifRedis) Close() error                      { return nil }

type VerifWorld struct {
	el  *eventloop
	eng *engine
}

// VerifQuiesce waits until background goroutines spawned by library code (the third-party hashmap
// grows its table in a goroutine) have finished: the goroutine count is back at or below base.
func VerifQuiesce(base int) {
	for i := 0; i < 5000000; i++ {
		if runtime.NumGoroutine() <= base {
			return
		}
		runtime.Gosched()
	}
}

// VerifReset restores package-level state so that an execution is a pure function of its inputs.
func VerifReset() {
	timeoutTree = llrb.New()
	msgId, fragId = 0, 0
	EngineGlobal = nil
}

// VerifBootReal runs the REAL serve() (seed pools from opts.RedisServers, OnBoot, engine.start() incl. preconnect); the go
// statements and the blocking deferred stop of core/engine.go are neutralised by the rewriter (vsys.GoCaptured / Skipped).
// No topology is injected: the first one arrives through the real probe path (ticker -> CLUSTER NODES -> refresh goroutine).
func VerifBootReal(h EventHandler, lfd int, opts *Options) (*VerifWorld, error) {
	VerifReset()
	allEngines.Delete("tcp://verif")
	ln := &listener{fd: lfd, addr: &net.TCPAddr{IP: net.IPv4(127, 0, 0, 1), Port: 9736}}
	if err := serve(h, ln, opts, "tcp://verif"); err != nil {
		return nil, err
	}
	v, ok := allEngines.Load("tcp://verif")
	if !ok {
		return nil, errors.New("serve() returned without registering an engine")
	}
	eng := v.(*engine)
	if eng.el == nil {
		return nil, errors.New("serve() returned without an event loop")
	}
	return &VerifWorld{el: eng.el, eng: eng}, nil
}

// Options returns the options the engine runs with (after Run's defaulting).
func (v *VerifWorld) Options() *Options { return v.eng.opts }

// verifListenFd is the simulated listening socket that the rewritten Run() receives instead of creating one.
var verifListenFd int

func verifInitListener(network, addr string, o *Options) (*listener, error) {
	return &listener{fd: verifListenFd, addr: &net.TCPAddr{IP: net.IPv4(127, 0, 0, 1), Port: 9736}}, nil
}

// VerifBootRun starts the proxy through the REAL Run(): option defaulting (size limit, connections per node, connect
// timeout, buffer sizes), then the real serve() as in VerifBootReal. opts holds exactly what the configuration file says.
func VerifBootRun(h EventHandler, lfd int, opts *Options) (*VerifWorld, error) {
	VerifReset()
	allEngines.Delete("tcp://verif")
	verifListenFd = lfd
	if err := Run(h, "tcp://verif", func(o *Options) { *o = *opts }); err != nil {
		return nil, err
	}
	v, ok := allEngines.Load("tcp://verif")
	if !ok {
		return nil, errors.New("Run() returned without registering an engine")
	}
	eng := v.(*engine)
	if eng.el == nil {
		return nil, errors.New("Run() returned without an event loop")
	}
	return &VerifWorld{el: eng.el, eng: eng}, nil
}

// VerifBoot mirrors serve() + engine.start() without statsLoop / loopClusterNodes / preconnect,
// then injects the initial topology through the real updateClusterNodes + ticker().
func VerifBoot(h EventHandler, lfd int, opts *Options, nodesText string, info VerifInfoFn) (*VerifWorld, error) {
	VerifReset()
	eng := new(engine)
	eng.opts = opts
	eng.eventHandler = h
	eng.cond = sync.NewCond(&sync.Mutex{})
	e := Engine{
		eng:         eng,
		ProxyPool:   make(map[string]*Pool),
		cCodec:      CRespCodec{opts.RedisMsgMaxLength},
		sCodec:      SRespCodec{opts.RedisMsgMaxLength},
		clusterChan: make(chan []byte, 3),
		ClusterNodes: ClusterNodes{
			redisAddrs:   opts.RedisServers,
			passwd:       opts.RedisPasswd,
			redisWrapper: verifWrapper{info},
		},
	}
	h.OnBoot(e)
	EngineGlobal = &e
	p, err := netpoll.OpenPoller()
	if err != nil {
		return nil, err
	}
	el := new(eventloop)
	el.ln = &listener{fd: lfd, addr: &net.TCPAddr{IP: net.IPv4(127, 0, 0, 1), Port: 9736}}
	el.engine = eng
	el.poller = p
	el.buffer = make([]byte, opts.ReadBufferCap)
	el.connections = make(map[int]*conn)
	el.eventHandler = h
	if err = el.poller.AddRead(el.ln.packPollAttachment(el.accept)); err != nil {
		return nil, err
	}
	eng.el = el
	if nodesText != "" {
		base := runtime.NumGoroutine()
		if err := EngineGlobal.ClusterNodes.updateClusterNodes(nodesText); err != nil {
			return nil, err
		}
		VerifQuiesce(base)
	}
	return &VerifWorld{el, eng}, nil
}

// Run is el.run() without LockOSThread and with a recover: a panic anywhere in proxy code means
// "the proxy process crashed" (the production loop goroutine has no recover).
func (w *VerifWorld) Run() (err error, panicked interface{}, stack string) {
	defer func() {
		if r := recover(); r != nil {
			panicked = r
			stack = string(debug.Stack())
		}
	}()
	err = w.el.poller.Polling(w.el.callback, w.el.ticker, w.el.msgTimeout)
	return
}

// VerifTicker runs the loop's ticker once (used at boot so that pools/slots exist before traffic).
func (w *VerifWorld) VerifTicker() (panicked interface{}) {
	defer func() { panicked = recover() }()
	w.el.ticker()
	return
}

// VerifDrainClusterChan empties the probe-reply channel (E1 scenarios have no refresh goroutine).
func VerifDrainClusterChan() (out [][]byte) {
	if EngineGlobal == nil {
		return nil
	}
	for {
		select {
		case m := <-EngineGlobal.clusterChan:
			out = append(out, m)
		default:
			return
		}
	}
}

// VerifUpdateNodes feeds a CLUSTER NODES text through the real updateClusterNodes.
func VerifUpdateNodes(text string) error {
	base := runtime.NumGoroutine()
	err := EngineGlobal.ClusterNodes.updateClusterNodes(text)
	VerifQuiesce(base)
	return err
}

// VerifRunRefreshLoop runs the real loopClusterNodes goroutine; done is closed when it returns.
// A panic inside it (which would kill the production process) is caught and reported through *panicked.
func VerifRunRefreshLoop(panicked *interface{}) (done chan struct{}) {
	done = make(chan struct{})
	eg := EngineGlobal
	go func() {
		defer close(done)
		defer func() {
			if r := recover(); r != nil && panicked != nil {
				*panicked = r
			}
		}()
		eg.ClusterNodes.loopClusterNodes()
	}()
	return done
}

// VerifSendProbeReply pushes a raw probe reply exactly like eventloop.sread does (blocking variant so
// that histories are never dropped by the harness itself).
func VerifSendProbeReply(msg []byte, done chan struct{}) bool {
	select {
	case EngineGlobal.clusterChan <- msg:
		return true
	case <-done:
		return false
	}
}

// VerifSlotTable returns the routing table compressed to ranges:
// "start-end master=addr slaves=a,b" ; unowned ranges are reported as "start-end -".
func VerifSlotTable() []string {
	var out []string
	desc := func(rs *replicaset) string {
		if rs == nil {
			return "-"
		}
		var sl []string
		for _, s := range rs.Slaves {
			sl = append(sl, s.Addr)
		}
		sort.Strings(sl)
		m := "<nil>"
		if rs.Master != nil {
			m = rs.Master.Addr
		}
		return "master=" + m + " slaves=" + strings.Join(sl, ",")
	}
	start := 0
	cur := desc(EngineGlobal.Slots2Node.Get(0))
	for i := 1; i <= 16384; i++ {
		d := ""
		if i < 16384 {
			d = desc(EngineGlobal.Slots2Node.Get(int32(i)))
		}
		if i == 16384 || d != cur {
			out = append(out, fmt.Sprintf("%d-%d %s", start, i-1, cur))
			start, cur = i, d
		}
	}
	return out
}

// VerifSlotOwner: master address and replica addresses for one slot ("" when unowned).
func VerifSlotOwner(slot int32) (master string, slaves []string) {
	rs := EngineGlobal.Slots2Node.Get(slot)
	if rs == nil {
		return "", nil
	}
	for _, s := range rs.Slaves {
		slaves = append(slaves, s.Addr)
	}
	sort.Strings(slaves)
	return rs.Master.Addr, slaves
}

// VerifPools lists "addr role closed" for every pool, sorted.
func VerifPools() []string {
	var out []string
	for k, p := range EngineGlobal.ProxyPool {
		role := "master"
		if p.isSlave {
			role = "slave"
		}
		out = append(out, fmt.Sprintf("%s %s closed=%v", k, role, p.closed))
	}
	sort.Strings(out)
	return out
}

// VerifSetBan sets the health-monitor outputs of a pool (the monitor goroutine itself is not run).
func VerifSetBan(addr string, banned bool, liftInFuture bool) bool {
	p, ok := EngineGlobal.ProxyPool[addr]
	if !ok {
		return false
	}
	p.AutoBanFlag = banned
	if liftInFuture {
		p.LiftBanTime = vsys.Now().Add(3600e9)
	} else {
		p.LiftBanTime = vsys.Now().Add(-3600e9)
	}
	return true
}

// VerifRefreshState is the canonical dump of the refresh component (for history BFS de-duplication).
func VerifRefreshState() string {
	c := &EngineGlobal.ClusterNodes
	var sm []string
	for kv := range c.ServerMap.Iter() {
		n := kv.Value.(*ClusterNode)
		sm = append(sm, fmt.Sprintf("%s/%s/%d/%s/%v", n.Addr, n.Name, n.Role, n.MasterId, n.Slots))
	}
	sort.Strings(sm)
	var rs []string
	for _, r := range c.Replicasets {
		var sl []string
		for _, s := range r.Slaves {
			sl = append(sl, s.Addr)
		}
		sort.Strings(sl)
		rs = append(rs, fmt.Sprintf("%s%v<-%s", r.Master.Addr, r.Master.Slots, strings.Join(sl, "+")))
	}
	sort.Strings(rs)
	return fmt.Sprintf("servers=%s|rs=%s|last=%s|changed=%v|table=%s|pools=%s", strings.Join(sm, ";"), strings.Join(rs, ";"),
		c.lastServerNames, c.serverChanged, strings.Join(VerifSlotTable(), ";"), strings.Join(VerifPools(), ";"))
}

// VerifTimeoutQueueLen: number of fragments with a pending deadline.
func VerifTimeoutQueueLen() int { return timeoutTree.Len() }

// VerifConnCounts: open client / server connections known to the loop.
func (w *VerifWorld) VerifConnCounts() (c, s int) {
	return int(w.el.loadCConn()), int(w.el.loadSConn())
}

// VerifClientQueueLen: number of requests still queued for the client on fd (-1 unknown fd).
func (w *VerifWorld) VerifClientQueueLen(fd int) int {
	c, ok := w.el.connections[fd]
	if !ok || c.inMsgQueue == nil {
		return -1
	}
	return c.inMsgQueue.count
}
