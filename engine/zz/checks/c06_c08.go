package checks

import (
	"bytes"
	"fmt"
	"strings"

	"rcproxy/core/zz_verif/world"
)

// ---------------------------------------------------------------------------------------------
// C06: multi-key requests are split into one exact per-slot fragment each.

var c06Pool []string

func init() {
	// two brace-free keys sharing a slot
	seen := map[int]string{}
	var p1, p2 string
	for i := 0; p1 == ""; i++ {
		k := fmt.Sprintf("p%d", i)
		s := world.SpecSlot([]byte(k))
		if o, ok := seen[s]; ok {
			p1, p2 = o, k
		}
		seen[s] = k
	}
	c06Pool = []string{p1, p2, "{t}a", "{t}b", "", "a\r\nb", "\x00\xff", "k{t}", "{}t", "e\r\n"}
}

type c06req struct {
	kind string
	keys []string
	vals []string
	raw  []byte
}

func c06Batch(id int, reqs []c06req) *world.Scenario {
	sc := &world.Scenario{Nodes: T3m(), Bound: 0, Family: "split", Horizon: 1 << 20, InputEnum: true}
	cs := world.ClientSpec{}
	for i, r := range reqs {
		cs.Chunks = append(cs.Chunks, world.Chunk{Data: r.raw, WaitReplies: i})
		cs.Reqs = append(cs.Reqs, r.raw)
		var exp []byte
		switch r.kind {
		case "mget":
			exp = []byte(fmt.Sprintf("*%d\r\n", len(r.keys)))
			for _, k := range r.keys {
				exp = append(exp, world.ValueOf([]byte(k))...)
			}
		case "del":
			n := 0
			for _, k := range r.keys {
				n += world.DelCount([]byte(k))
			}
			exp = []byte(fmt.Sprintf(":%d\r\n", n))
		case "mset":
			exp = []byte(world.ROK)
		}
		cs.Expect = append(cs.Expect, exp)
	}
	sc.Clients = []world.ClientSpec{cs}
	sc.Name = fmt.Sprintf("C06/batch%d(%s %q ..)", id, reqs[0].kind, reqs[0].keys)
	sc.Check = func(w *world.World) []world.Violation {
		if vs := BackendsWellFormed(w); len(vs) > 0 {
			vs[0].Sig = "fragment-malformed"
			return vs
		}
		groups := map[int][]world.CmdRec{}
		for _, rec := range w.DataCmds("") {
			groups[rec.CR] = append(groups[rec.CR], rec)
		}
		for i, r := range reqs {
			if v := c06Judge(r, groups[i]); v != nil {
				return []world.Violation{*v}
			}
		}
		return CheckStreams(w, StreamOpts{})
	}
	return sc
}

func c06Judge(r c06req, frags []world.CmdRec) *world.Violation {
	type pair struct{ k, v string }
	want := map[int][]pair{}
	var slots []int
	for i, k := range r.keys {
		s := world.SpecSlot([]byte(k))
		if _, ok := want[s]; !ok {
			slots = append(slots, s)
		}
		v := ""
		if r.kind == "mset" {
			v = r.vals[i]
		}
		want[s] = append(want[s], pair{k, v})
	}
	mk := func(sig, f string, a ...interface{}) *world.Violation {
		return &world.Violation{Sig: sig, Msg: fmt.Sprintf("request %q: ", r.raw) + fmt.Sprintf(f, a...)}
	}
	if len(frags) != len(slots) {
		return mk("fragment-count", "%d distinct slots but %d fragments were sent: %s", len(slots), len(frags), fragList(frags))
	}
	seen := map[int]bool{}
	for _, f := range frags {
		if world.Lower(f.Args[0]) != r.kind {
			return mk("fragment-malformed", "fragment %q is not a %s", f.Raw, r.kind)
		}
		var got []pair
		if r.kind == "mset" {
			if len(f.Args)%2 != 1 {
				return mk("fragment-malformed", "fragment %q has an odd number of key/value arguments", f.Raw)
			}
			for i := 1; i+1 < len(f.Args); i += 2 {
				got = append(got, pair{string(f.Args[i]), string(f.Args[i+1])})
			}
		} else {
			for _, a := range f.Args[1:] {
				got = append(got, pair{string(a), ""})
			}
		}
		if len(got) == 0 {
			return mk("fragment-malformed", "empty fragment %q", f.Raw)
		}
		s := world.SpecSlot([]byte(got[0].k))
		for _, p := range got {
			if world.SpecSlot([]byte(p.k)) != s {
				return mk("foreign-key-in-fragment", "fragment %q mixes slots %d and %d", f.Raw, s, world.SpecSlot([]byte(p.k)))
			}
		}
		if seen[s] {
			return mk("fragment-count", "two fragments for slot %d: %s", s, fragList(frags))
		}
		seen[s] = true
		w := want[s]
		if len(w) == 0 {
			return mk("foreign-key-in-fragment", "fragment %q carries keys of slot %d, which the request does not touch", f.Raw, s)
		}
		if len(got) != len(w) {
			sig := "key-lost"
			if len(got) > len(w) {
				sig = "key-duplicated"
			}
			return mk(sig, "slot %d: request has %d key occurrences %q, fragment has %d: %q", s, len(w), w, len(got), got)
		}
		for i := range w {
			if got[i] != w[i] {
				// same multiset?
				cnt := map[pair]int{}
				for _, p := range w {
					cnt[p]++
				}
				for _, p := range got {
					cnt[p]--
				}
				same := true
				for _, c := range cnt {
					if c != 0 {
						same = false
					}
				}
				sig := "key-lost"
				if same {
					sig = "order-changed"
				} else if got[i].k == w[i].k {
					sig = "value-mispaired"
				}
				return mk(sig, "slot %d: request order %q, fragment %q", s, w, got)
			}
		}
	}
	return nil
}

func fragList(fr []world.CmdRec) string {
	var s []string
	for _, f := range fr {
		s = append(s, fmt.Sprintf("%q", f.Raw))
	}
	return strings.Join(s, " ")
}

func c06Scenarios(tier string) []*world.Scenario {
	maxLen := 4
	if tier == "thorough" {
		maxLen = 5
	}
	vals := []string{"v", "", "x\r\ny", "w\r\n", "\n"}
	var all []c06req
	var rec func(cur []int)
	rec = func(cur []int) {
		if len(cur) > 0 {
			var keys []string
			for _, i := range cur {
				keys = append(keys, c06Pool[i])
			}
			for _, kind := range []string{"mget", "del", "mset"} {
				r := c06req{kind: kind, keys: keys}
				args := []string{kind}
				for j, k := range keys {
					args = append(args, k)
					if kind == "mset" {
						v := fmt.Sprint(j) + vals[(j+len(cur)+cur[0])%5]
						if (j+cur[0])%4 == 0 {
							v = vals[(j+1)%5]
						}
						r.vals = append(r.vals, v)
						args = append(args, v)
					}
				}
				r.raw = world.Cmd(args...)
				all = append(all, r)
			}
		}
		if len(cur) == maxLen {
			return
		}
		for i := range c06Pool {
			rec(append(cur, i))
		}
	}
	rec(nil)
	var out []*world.Scenario
	const batch = 60
	for i := 0; i < len(all); i += batch {
		j := i + batch
		if j > len(all) {
			j = len(all)
		}
		out = append(out, c06Batch(i/batch, all[i:j]))
	}
	// sweeps over the NUMBERS a fragment header carries: every key / value length 0..300 and around the powers of ten and
	// two up to 100000, every number of keys of one slot 1..130 and around 256 / 1000 / 1024 (next to one key of another slot)
	var sweep []c06req
	other := keysC[4]
	mk := func(kind string, keys, vals []string) {
		r := c06req{kind: kind, keys: keys, vals: vals}
		args := []string{kind}
		for j, k := range keys {
			args = append(args, k)
			if kind == "mset" {
				args = append(args, vals[j])
			}
		}
		r.raw = world.Cmd(args...)
		sweep = append(sweep, r)
	}
	lens := []int{}
	for L := 0; L <= 300; L++ {
		lens = append(lens, L)
	}
	lens = append(lens, 511, 512, 513, 999, 1000, 1001, 1023, 1024, 1025, 4095, 4096, 4097, 9999, 10000, 10001, 65535, 65536, 65537, 99999, 100000, 100001)
	for _, L := range lens {
		if tier != "thorough" && L > 300 && L%2 == 1 && L != 1001 && L != 10001 {
			continue
		}
		k := "{t}" + strings.Repeat("k", L)
		if L < 3 {
			k = strings.Repeat("q", L)
		} else {
			k = k[:L]
		}
		v := strings.Repeat("v", L)
		mk("mget", []string{k, other}, nil)
		mk("del", []string{other, k}, nil)
		mk("mset", []string{k, other}, []string{v, "w"})
	}
	counts := []int{}
	for n := 1; n <= 130; n++ {
		counts = append(counts, n)
	}
	counts = append(counts, 254, 255, 256, 257, 258, 499, 500, 501, 999, 1000, 1001, 1023, 1024, 1025)
	for _, n := range counts {
		var ks, vs []string
		for i := 0; i < n; i++ {
			ks = append(ks, fmt.Sprintf("{t}%d", i))
			vs = append(vs, "v")
		}
		mk("mget", append(append([]string{}, ks...), other), nil)
		mk("del", append([]string{other}, ks...), nil)
		mk("mset", append(append([]string{}, ks...), other), append(append([]string{}, vs...), "w"))
	}
	// the fragments of pipelined split MSETs on their way to a node that reads slowly (more than 64 KiB parked, drained in
	// pieces, further fragments queued meanwhile): the node receives exactly the fragments
	out = append(out, SlowBackendOverflow("C06", 5, 40000, 2), SlowBackendBatch("C06", 4, 50, 2), SlowBackendBatch("C06", 3, 300, 2))
	// one multi-key request whose keys fall into exactly 1023 / 1024 / 1025 / 2048 distinct slots of ONE node (that many
	// fragments are queued for one connection in one loop round)
	{
		initSlotKeys()
		for _, n := range []int{1023, 1024, 1025, 2048} {
			var ks, vs []string
			for sl := 0; sl < n; sl++ {
				ks = append(ks, slotKeys[sl])
				vs = append(vs, "v")
			}
			mk("mget", ks, nil)
			mk("del", ks, nil)
			mk("mset", ks, vs)
		}
	}
	const sbatch = 40
	for i := 0; i < len(sweep); i += sbatch {
		j := i + sbatch
		if j > len(sweep) {
			j = len(sweep)
		}
		sc := c06Batch(10000+i/sbatch, sweep[i:j])
		sc.Family = "number-sweep"
		sc.ReadCap, sc.WriteCap, sc.MaxLen = 65536, 65536, 4<<20
		sc.Name = fmt.Sprintf("C06/number-sweep/batch%d(%s, first key %d bytes, %d keys ..)", i/sbatch, sweep[i].kind, len(sweep[i].keys[0]), len(sweep[i].keys))
		out = append(out, sc)
	}
	return out
}

// ---------------------------------------------------------------------------------------------
// C08: request framing is independent of TCP segmentation.

type c08stream struct {
	name string
	reqs []Req
}

func c08Streams(tier string) []c08stream {
	a, b, c := keysA[0], keysB[0], keysC[0]
	long := strings.Repeat("L70-", 18)
	s := []c08stream{
		{"get", []Req{GetReq(a)}},
		{"set-crlf-bin", []Req{SetReq(b, "a\r\nb\x00$3\r\n")}},
		{"set-empty,get", []Req{SetReq(a, ""), GetReq(c)}},
		{"mget-split", []Req{MGetReq(a, b, c)}},
		{"ping", []Req{PingReq()}},
		{"ping,get,set", []Req{PingReq(), GetReq(a), SetReq(b, "*1\r\n")}},
		{"get,get,get", []Req{GetReq(a), GetReq(b), GetReq(c)}},
		{"set-70B,get", []Req{SetReq(c, long), GetReq(a)}},
		{"del-split,mset-split", []Req{DelReq(a, b), MSetReq(a, "1", c, "\r\n")}},
		// many short keys: what has arrived of the request can be much less than its announced argument count suggests
		{"mget-12keys", []Req{MGetReq("a", "b", "c", "d", "e", "f", "g", "h", "i", "j", "k", "l")}},
		{"mset-8pairs,get", []Req{MSetReq("a", "1", "b", "2", "c", "3", "d", "4", "e", "5", "f", "6", "g", "7", "h", "8"), GetReq(a)}},
		{"del-9keys", []Req{DelReq("a", "b", "c", "d", "e", "f", "g", "h", "i")}},
		// many empty arguments: the shortest encodings an argument can have
		{"del-empties", []Req{DelReq("", "", "")}},
		{"mget-empties,get", []Req{MGetReq("", "", "", ""), GetReq(a)}},
		{"rpush-empties,get", []Req{{Kind: "RPUSH", Bytes: world.Cmd("rpush", "q", "", "", "", "", "")}, GetReq(b)}},
		{"get,hmset-empties", []Req{GetReq(c), {Kind: "HMSET", Bytes: world.Cmd("hmset", "", "", "", "", "")}}},
	}
	if tier == "thorough" {
		s = append(s,
			c08stream{"eval,get", []Req{{Kind: "EVAL", Bytes: world.Cmd("EVAL", "return {KEYS[1]}", "1", a, "arg\r\n"), Expect: world.Bulk("r:eval:return {KEYS[1]}")}, GetReq(b)}},
			c08stream{"set-400B,mget", []Req{SetReq(a, strings.Repeat("0123456789", 40)), MGetReq(b, c)}},
		)
	}
	return s
}

func c08Scenario(st c08stream, cuts []int, readCap int, label string) *world.Scenario {
	sc := &world.Scenario{Nodes: T3m(), Bound: 0, Family: "segmentation", Horizon: 5000, ReadCap: readCap, WriteCap: 64, InputEnum: true}
	var all []byte
	cs := world.ClientSpec{}
	for _, r := range st.reqs {
		all = append(all, r.Bytes...)
		cs.Reqs = append(cs.Reqs, r.Bytes)
		cs.Expect = append(cs.Expect, r.Expect)
	}
	cs.Chunks = SplitAt(all, cuts...)
	sc.Clients = []world.ClientSpec{cs}
	sc.Name = fmt.Sprintf("C08/%s/cap%d/%s", st.name, readCap, label)
	reqs := st.reqs
	sc.Check = func(w *world.World) []world.Violation { return c08Oracle(w, reqs) }
	return sc
}

// expected per-node command sequence for a request stream (fragments of one request: any order)
func c08Oracle(w *world.World, reqs []Req) []world.Violation {
	c := w.Clients[0]
	if c.ProxyClosed {
		return []world.Violation{{Sig: "prefix-treated-as-error", Msg: fmt.Sprintf("the proxy closed the connection of a client that sent a well-formed stream (chunks %q)", chunkList(c.Spec))}}
	}
	vs := CheckStreams(w, StreamOpts{})
	for i := range vs {
		rs, _, _ := world.SplitReplies(c.Received)
		for _, r := range rs {
			if bytes.Equal(r, []byte(world.RErrReqLarge)) {
				vs[i].Sig = "size-limit-uses-buffered-total"
			}
		}
		if vs[i].Sig == "corrupt" || vs[i].Sig == "missing-tail" || vs[i].Sig == "forwarded-swap" {
			vs[i].Sig = "outcome-depends-on-cut"
		}
		vs[i].Msg += fmt.Sprintf(" [chunks %q]", chunkList(c.Spec))
	}
	if len(vs) > 0 {
		return vs
	}
	// every forwarded request reached a backend exactly as sent (split requests: their keys, once)
	var wantKeys, gotKeys []string
	for _, r := range reqs {
		if r.Local {
			continue
		}
		args, _, _ := world.ParseRequestStrict(r.Bytes)
		name := world.Lower(args[0])
		switch name {
		case "mget", "del":
			for _, k := range args[1:] {
				wantKeys = append(wantKeys, name+":"+string(k))
			}
		case "mset":
			for i := 1; i+1 < len(args); i += 2 {
				wantKeys = append(wantKeys, name+":"+string(args[i])+"="+string(args[i+1]))
			}
		default:
			wantKeys = append(wantKeys, string(lowerName(append([]byte{}, r.Bytes...))))
		}
	}
	for _, rec := range w.DataCmds("") {
		name := world.Lower(rec.Args[0])
		switch name {
		case "mget", "del":
			for _, k := range rec.Args[1:] {
				gotKeys = append(gotKeys, name+":"+string(k))
			}
		case "mset":
			for i := 1; i+1 < len(rec.Args); i += 2 {
				gotKeys = append(gotKeys, name+":"+string(rec.Args[i])+"="+string(rec.Args[i+1]))
			}
		default:
			gotKeys = append(gotKeys, string(lowerName(append([]byte{}, rec.Raw...))))
		}
	}
	if fmt.Sprint(sorted(wantKeys)) != fmt.Sprint(sorted(gotKeys)) {
		return []world.Violation{{Sig: "outcome-depends-on-cut", Msg: fmt.Sprintf("requests recognised differ from the stream: backends saw %q, stream holds %q [chunks %q]", gotKeys, wantKeys, chunkList(c.Spec))}}
	}
	return BackendsWellFormed(w)
}

func sorted(s []string) []string {
	o := append([]string{}, s...)
	for i := 1; i < len(o); i++ {
		for j := i; j > 0 && o[j] < o[j-1]; j-- {
			o[j], o[j-1] = o[j-1], o[j]
		}
	}
	return o
}

func chunkList(cs *world.ClientSpec) []string {
	var o []string
	for _, c := range cs.Chunks {
		if len(c.Data) > 40 {
			o = append(o, fmt.Sprintf("%s..(%dB)", c.Data[:40], len(c.Data)))
		} else {
			o = append(o, string(c.Data))
		}
	}
	return o
}

func c08Scenarios(tier string) []*world.Scenario {
	var out []*world.Scenario
	thorough := tier == "thorough"
	for _, st := range c08Streams(tier) {
		n := 0
		for _, r := range st.reqs {
			n += len(r.Bytes)
		}
		for _, cap := range []int{8, 32, 65536} {
			out = append(out, c08Scenario(st, nil, cap, "whole"))
			// byte at a time
			var each []int
			for i := 1; i < n; i++ {
				each = append(each, i)
			}
			out = append(out, c08Scenario(st, each, cap, "bytewise"))
			for c1 := 1; c1 < n; c1++ {
				out = append(out, c08Scenario(st, []int{c1}, cap, fmt.Sprintf("cut%d", c1)))
			}
			pairLimit := 60
			if thorough {
				pairLimit = 100
			}
			if n <= pairLimit && (thorough || cap == 32) {
				for c1 := 1; c1 < n; c1++ {
					for c2 := c1 + 1; c2 < n; c2++ {
						out = append(out, c08Scenario(st, []int{c1, c2}, cap, fmt.Sprintf("cut%d,%d", c1, c2)))
					}
				}
			}
		}
	}
	// long streams (the inbound ring is 1 KiB by default; its cursors advance and wrap only when the leftover never
	// drains): 70 requests of varying size, ~2.5 KB, cut so that NO read ends on a request boundary: one cut inside every
	// request / every 2nd / every 3rd request, and two cuts inside every request (each request spans three reads)
	{
		var reqs []Req
		for j := 0; j < 70; j++ {
			switch j % 5 {
			case 0:
				reqs = append(reqs, GetReq(keysA[j%12]))
			case 1:
				reqs = append(reqs, SetReq(keysB[j%12], strings.Repeat(string(rune('a'+j%26)), 5+j%23)))
			case 2:
				reqs = append(reqs, MGetReq(keysA[j%12], keysB[(j+1)%12]))
			case 3:
				reqs = append(reqs, SetReq(keysC[j%12], "v\r\n"+strings.Repeat("z", j%31)))
			default:
				reqs = append(reqs, GetReq(keysC[j%12]))
			}
		}
		st := c08stream{"long-70", reqs}
		for _, mode := range []string{"every1", "every2", "every3", "twice"} {
			var cuts []int
			off := 0
			for j, r := range reqs {
				L := len(r.Bytes)
				switch {
				case mode == "twice":
					c1 := 1 + (j*7)%(L/2)
					c2 := L/2 + 1 + (j*5)%(L/2-1)
					cuts = append(cuts, off+c1, off+c2)
				case mode == "every1" || (mode == "every2" && j%2 == 0) || (mode == "every3" && j%3 == 0):
					cuts = append(cuts, off+1+(j*7)%(L-1))
				}
				off += L
			}
			for _, cap := range []int{64, 4096, 65536} {
				if !thorough && cap == 4096 && mode != "twice" {
					continue
				}
				sc := c08Scenario(st, cuts, cap, "unaligned-"+mode)
				sc.Family = "long-stream"
				out = append(out, sc)
			}
		}
	}
	// large requests at production buffer sizes: a SET whose value has S bytes, followed by a GET, cut once or twice at
	// offsets around the places where the inbound ring (1 KiB when fresh, doubling, 25% steps from 4 KiB) has to grow:
	// after the header, 1 KiB / 2 KiB into the value, in its middle, just before / on / after the request boundary
	{
		sizes := []int{1500, 3000, 9000}
		if thorough {
			sizes = []int{1100, 1500, 2100, 3000, 4200, 5000, 9000, 20000, 70000}
		}
		for _, S := range sizes {
			big := SetReq(keysA[1], strings.Repeat("0123456789abcdef", S/16+1)[:S])
			st := c08stream{fmt.Sprintf("set-%dB,get", S), []Req{big, GetReq(keysB[2])}}
			L := len(big.Bytes)
			h := L - S - 2
			offs := []int{1, h - 1, h, h + 1, h + 1000, h + 1023, h + 1024, h + 1025, h + 2047, h + 2048, h + S/2, L - 3, L - 1, L, L + 1}
			var ok []int
			for _, o := range offs {
				if o > 0 && o < L+len(st.reqs[1].Bytes) && (len(ok) == 0 || o > ok[len(ok)-1]) {
					ok = append(ok, o)
				}
			}
			for _, cap := range []int{4096, 65536} {
				for i, c1 := range ok {
					sc := c08Scenario(st, []int{c1}, cap, fmt.Sprintf("cut%d", c1))
					sc.Family, sc.Horizon = "large-request", 20000
					out = append(out, sc)
					for _, c2 := range ok[i+1:] {
						sc := c08Scenario(st, []int{c1, c2}, cap, fmt.Sprintf("cut%d,%d", c1, c2))
						sc.Family, sc.Horizon = "large-request", 20000
						out = append(out, sc)
						if thorough && cap == 65536 {
							for _, c3 := range ok {
								if c3 > c2 {
									sc := c08Scenario(st, []int{c1, c2, c3}, cap, fmt.Sprintf("cut%d,%d,%d", c1, c2, c3))
									sc.Family, sc.Horizon = "large-request", 20000
									out = append(out, sc)
								}
							}
						}
					}
				}
			}
		}
	}
	// a request LARGER than the 64 KiB read buffer with further arguments behind the big one (RPUSH k <big> t1 t2, MSET k <big>
	// k2 v2): every single cut inside the last 48 bytes (the later arguments' header lines and payloads) and inside the
	// first header lines, at the production read-buffer size
	{
		sizes := []int{70000, 140000}
		if !thorough {
			sizes = []int{100000}
		}
		for _, S := range sizes {
			big := strings.Repeat("0123456789abcdef", S/16+1)[:S]
			for _, kind := range []string{"rpush", "mset"} {
				var r Req
				if kind == "rpush" {
					r = Req{Kind: "RPUSH", Bytes: world.Cmd("rpush", keysA[1], big, "tail-one", "t2")}
				} else {
					r = MSetReq(keysA[1], big, keysB[1], "tail-value")
				}
				st := c08stream{fmt.Sprintf("%s-%dB-then-tail-args,get", kind, S), []Req{r, GetReq(keysB[2])}}
				L := len(r.Bytes)
				var cuts []int
				for c := L - 48; c <= L+2; c++ {
					cuts = append(cuts, c)
				}
				cuts = append(cuts, 1, 4, 14, 70000/2, 65536, 65537)
				for _, c1 := range cuts {
					sc := c08Scenario(st, []int{c1}, 65536, fmt.Sprintf("cut%d", c1))
					sc.Family, sc.Horizon, sc.MaxLen, sc.NoVariant = "large-request", 20000, 4<<20, true
					out = append(out, sc)
				}
			}
		}
	}
	// a deep pipeline of small requests (more than 1024 requests available to one read of the 64 KiB buffer): the same
	// requests are recognised whether the stream arrives in one piece, in pieces of 300 requests or cut mid-request
	{
		for _, n := range []int{1024, 1025, 1100, 2700} {
			var reqs []Req
			for j := 0; j < n; j++ {
				reqs = append(reqs, GetReq(fmt.Sprintf("{%s}%d", []string{keysA[0], keysB[0], keysC[0]}[j%3], j)))
			}
			st := c08stream{fmt.Sprintf("pipeline-%d-gets", n), reqs}
			per := len(reqs[0].Bytes)
			for _, mode := range []string{"whole", "pieces-of-300", "cut-mid-request"} {
				var cuts []int
				switch mode {
				case "pieces-of-300":
					off := 0
					for j, r := range reqs {
						if j > 0 && j%300 == 0 {
							cuts = append(cuts, off)
						}
						off += len(r.Bytes)
					}
				case "cut-mid-request":
					cuts = []int{per*1000 + 7, per*1024 + 3}
				}
				sc := c08Scenario(st, cuts, 65536, mode)
				sc.Family, sc.Horizon, sc.NoVariant = "deep-pipeline", 60000, true
				out = append(out, sc)
			}
		}
	}
	// another client died inside a request (its prefix parked in the inbound buffer) before this client's stream arrives
	{
		ab := world.Cmd("set", keysA[0], strings.Repeat("A", 34))
		for _, st := range c08Streams(tier)[:4] {
			n := 0
			for _, r := range st.reqs {
				n += len(r.Bytes)
			}
			for _, plen := range []int{1, 9, len(ab) - 30, len(ab) - 1} {
				for _, rst := range []bool{false, true} {
					for c1 := 1; c1 < n; c1++ {
						if !thorough && c1%3 != 1 {
							continue
						}
						sc := AbortedNeighbour(ab[:plen], rst, st.reqs, []int{c1}, 32)
						sc.Name = fmt.Sprintf("C08/aborted-neighbour/%s/prefix%d/rst=%v/cut%d", st.name, plen, rst, c1)
						reqs := st.reqs
						sc.Check = func(w *world.World) []world.Violation { return c08Oracle(w, reqs) }
						out = append(out, sc)
					}
				}
			}
		}
	}
	// small requests whose pipeline exceeds the size limit: each is within the limit on its own
	small := SetReq(keysA[0], "0123456789012345")
	st := c08stream{"3-small-sets-under-limit64", []Req{small, SetReq(keysB[0], "0123456789012345"), SetReq(keysC[0], "0123456789012345")}}
	n := len(small.Bytes) * 3
	for _, cuts := range [][]int{nil, {len(small.Bytes)}, {len(small.Bytes), 2 * len(small.Bytes)}, {10}, {n - 5}} {
		sc := c08Scenario(st, cuts, 256, fmt.Sprintf("limit64/cuts%v", cuts))
		sc.MaxLen = 64
		sc.Family = "limit"
		out = append(out, sc)
	}
	return out
}

func init() {
	register(&Check{ID: "C06", Level: "model_checking",
		Rule:      "every MGET / DEL key list and MSET pair list of length 1..4 (thorough 1..5) with repetition over a pool of 10 keys chosen for slot structure (two brace-free keys sharing a slot, two sharing a slot through a hash tag, a third key of that tag's slot, empty key, key with CRLF inside, key ENDING in CRLF, binary key, key with an empty '{}' tag), values {plain, empty, CRLF inside, ending in CRLF, a lone LF}; each list is sent through the real proxy (closed-loop batches of 60) and the fragments every node received are compared with the reference split: one well-formed fragment of the same command per distinct specification slot, only keys of that slot, every key occurrence (with its value) exactly once and in request order; non-trivial = every list (each list is distinct); distinct = observable outcomes of the batches",
		Scenarios: c06Scenarios, BudgetQuick: 100, BudgetThorough: 1500,
		Assumptions: []string{"pool keys are brace-free or carry well-formed hash tags (slot function itself is C05's business)"}})
	register(&Check{ID: "C08", Level: "model_checking",
		Rule:      "request streams (1-3 requests: GET, SET with CRLF/binary/empty/70-byte arguments, split MGET/DEL/MSET, PING; thorough adds EVAL and a 400-byte SET) x read-buffer capacities {8, 32, 65536} x segmentations {unsegmented, byte-at-a-time, EVERY single cut, EVERY pair of cuts for streams up to 60 (thorough 100) bytes}; plus a 70-request stream of ~2.5 KB (the 1 KiB inbound ring wraps) cut so that no read ever ends on a request boundary (a cut inside every / every 2nd / every 3rd request, two cuts inside every request) at caps 64/4096/65536; plus a pipeline of three small SETs whose total exceeds a 64-byte size limit while each request is within it; plus the first four streams under single cuts after ANOTHER client died (FIN/RST) with a proper prefix of a request parked in its inbound buffer; oracle: same requests recognised (per-node command multiset), same replies in order, connection never closed, never an error caused by a cut; distinct = observable outcomes",
		Scenarios: c08Scenarios, BudgetQuick: 100, BudgetThorough: 1500,
		Assumptions: []string{"default (synchronous) schedule per segmentation: C08 varies the cuts, C01/C09 vary the interleavings", "PING is only placed where no forwarded request precedes it, so the ordering property C01 is not re-judged here"}})
}
