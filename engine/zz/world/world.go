// Package world closes the proxy into a finite system: scripted clients, simulated Redis
// cluster nodes, faults and virtual time, all driven through vsys' single scheduling point.
package world

import (
	"fmt"
	"os"
	"path/filepath"
	"runtime"
	"sort"
	"strings"
	"time"

	"golang.org/x/sys/unix"

	"rcproxy/core"
	"rcproxy/core/authip"
	"rcproxy/core/pkg/logging"
	"rcproxy/core/pkg/redis"
	"rcproxy/core/server"
	"rcproxy/core/vsys"
)

// ---------------------------------------------------------------------------------------------
// scenario

type NodeSpec struct {
	Name   string // node id
	Addr   string // ip:port
	Master string // "" for masters, master node id for replicas
	Slots  [][2]int
	Flags  string // extra flags, e.g. "fail"
	Link   string // "connected" (default) / "disconnected"
	// Markers: migration markers appended to the slot columns, e.g. "[93-<-aaa]" (importing) or "[93->-ddd]" (migrating)
	Markers []string
}

type Chunk struct {
	Data        []byte
	WaitReplies int                 // deliverable only after the client has received this many complete replies
	WaitTicks   int                 // deliverable only after this many TICK events
	Gate        func(w *World) bool // optional extra condition
}

type ClientSpec struct {
	IP     [4]byte
	Chunks []Chunk
	Slow   bool
	Flood  bool // a sender that never waits: once its first chunk has been delivered its socket is topped up again after
	// every read of the proxy (at least two read buffers' worth pending) until the chunks run out, as if the
	// client always won the race against the proxy
	CloseAfter int // >0: a FIN becomes schedulable once this many chunks were delivered; 0: never
	CloseRST   bool
	Expect     [][]byte       // reference reply per request (nil entry = unspecified)
	ExpectAlt  map[int][]byte // position -> second acceptable reply
	ExpectEOF  bool           // reference: proxy closes the connection after the last reply
	Reqs       [][]byte       // the requests, for reporting
	// ConnectGate: the client only connects (becomes acceptable) once this holds (nil: from the start)
	ConnectGate func(w *World) bool
}

type Fault struct {
	Kind       string              // "backend-close", "backend-rst", "topo" (CLUSTER NODES update adopted by the refresh code)
	Addr       string              // node address (first open connection to it)
	AfterW     int                 // enabled once that connection has received this many commands
	AfterTicks int                 // enabled once this many TICK events have happened
	Nodes      []NodeSpec          // topo: the new topology
	Text, Dir  string              // "whitelist": new content of <Dir>/authip.yaml, loaded through the real reload function
	Gate       func(w *World) bool // optional extra condition
	// further kinds: "nodes-change" (the nodes report a new topology), "node-down" / "node-up" (the node at Addr stops /
	// resumes accepting connections and answering health probes)
}

// ReplyFn lets a scenario override what a node answers. Return nil for the model's default.
// hold: -1 answer is never sent; n>0: only deliverable after n ticks.
type ReplyFn func(w *World, bc *BConn, args [][]byte) (reply []byte, hold int)

type Scenario struct {
	Name   string
	Family string
	Nodes  []NodeSpec
	// proxy options
	ReadCap, WriteCap int
	MaxLen            int
	TimeoutMs         int
	ServerConns       int
	Password          string
	NodePassword      string // what the nodes require (defaults to Password)
	DisableSlave      bool
	RetryTimeoutMs    int
	Whitelist         []string // nil: disabled
	// world
	Clients        []ClientSpec
	Reply          ReplyFn
	ReplyCuts      []int          // every backend reply is cut at these offsets (that are < len)
	CoalesceAll    bool           // a backend read event delivers ALL replies that are ready (several replies in one read)
	CoalesceChoice bool           // ... or how many of them is an explorer choice (kind "coalesce")
	HandshakeCuts  []int          // non-nil: AUTH/READONLY replies of one write are coalesced and cut at these offsets
	Stateful       bool           // nodes keep a real KV (GET/SET/DEL/MGET/MSET/INCR/APPEND)
	CheckOwner     bool           // nodes answer -MOVED for slots they do not own
	RefuseDial     map[string]int // addr -> number of initial dials refused (-1: always)
	Faults         []Fault
	Ticks          []time.Duration     // TICK events available, in order
	TickGate       func(w *World) bool // nil or: TICK is only enabled when this holds
	BusyTicks      bool                // the clock advances while the proxy is busy: a TICK is followed at once by the next ready event (epoll_wait does
	// not return "no events") whenever there is one
	SlowBackends bool
	// exploration
	Bound        int      // max deviations; <0: unbounded
	FreeKinds    []string // choice kinds ("sched","intn","order","write") whose alternatives cost no deviation (always enumerated)
	Horizon      int      // max scheduling steps
	OrderSites   []string
	IntnChoice   bool
	IntnGate     func(w *World) bool // rand.Intn is a choice point only while this holds
	WriteOracle  bool
	NoBootTick   bool
	Monitors     bool // run the real per-node health monitor goroutines as cooperative threads (virtual ticker / sleep, probe outcome = node up?)
	NoProbeDrain bool // nobody consumes the probe-reply channel (the refresh goroutine is busy, e.g. waiting for a silent node's INFO)
	RefreshLoop  bool // run the real topology refresh goroutine; synchronised with a barrier at every quiescent point
	InputEnum    bool // the scenario itself is one point of an input enumeration (counts as a distinct non-trivial case)
	ReuseFds     bool
	// the proxy's own redis client (INFO probe of new nodes, PING health probe) talks to the scripted nodes over in-memory
	// connections: Info says what a node's INFO reports (nil: version 6.0.0, not loading, link up; an error = dial refused);
	// ProbePiece > 0 delivers every reply of those connections in pieces of that many bytes
	Info       func(addr string) (*redis.Info, error)
	ProbePiece int
	// RealBoot: the proxy is started by the REAL serve() / engine.start() with seed pools for Seeds (redis.servers) and,
	// with Preconnect, connections opened before the loop runs; no topology is injected - the first one arrives through the
	// real probe path, so the scenario needs RefreshLoop and at least one 1 s TICK before traffic
	RealBoot bool
	// RealRun (with RealBoot): the proxy is started through the REAL core.Run with exactly the configured values (MaxLen,
	// ServerConns as written, 0 = not configured), so Run's option defaulting is part of the execution; the buffer sizes are
	// the production ones (Run sets them)
	RealRun    bool
	Seeds      []string
	Preconnect bool
	NoVariant  bool // never run this scenario as a configuration variant (multi-megabyte inputs: debug lines walk every byte)
	DebugLog   bool // log level "debug": Debug lines are formatted and Debug closures evaluated
	SlowlogMs  int  // > 0: slow-log threshold in milliseconds (RedisSlowlogSlowerThan)
	AfterBoot  func(w *World)
	// cross-execution oracle: Observe is recorded per execution, Final judges the multiset of a scenario
	Observe func(w *World) string
	Final   func(obs map[string]int) []Violation
	// oracle
	CrashSig   string // signature to report for a proxy panic in this scenario ("" = "crash")
	HorizonSig string // signature to report when the step horizon is hit ("" = not a violation by itself)
	Check      func(w *World) []Violation
	Quiescent  func(w *World) *Violation
}

type Violation struct {
	Sig string
	Msg string
}

// ---------------------------------------------------------------------------------------------
// world

type CmdRec struct {
	Replica  bool // the receiving node was a replica in the topology current at that time
	ReadOnly bool // the connection had been switched to READONLY before this command
	CR       int  // total complete replies all clients had received when this command arrived
	Seq      int
	Addr     string
	Conn     int
	Raw      []byte
	Args     [][]byte
	Reply    []byte
}

type BConn struct {
	ID                int
	Addr              string
	Node              *NodeSpec
	Sock              *vsys.Sock
	inbox             []byte
	outbox            []outChunk
	Log               []CmdRec
	Malformed         string
	Authed            bool
	ReadOnly          bool
	Asking            bool
	hsMerged          int
	WrittenAfterClose int
	Delivered         int      // replies whose last byte has been handed to the proxy's socket
	PreData           []string // handshake commands seen before the first data command
	SawData           bool
	BadOrder          string
}

type outChunk struct {
	data []byte
	hold int
	last bool // last chunk of a reply
	hs   bool // handshake reply (AUTH / READONLY)
}

type Client struct {
	Idx          int
	Spec         *ClientSpec
	Sock         *vsys.Sock
	Accepted     bool
	next         int
	Received     []byte
	NReplies     int
	ProxyClosed  bool
	PeerClosed   bool
	BytesAtClose int
}

type World struct {
	Sc        *Scenario
	Opts      *core.Options
	Handler   core.EventHandler
	VW        *core.VerifWorld
	Ln        *vsys.Sock
	Clients   []*Client
	BConns    []*BConn
	KV        map[string]map[string]string // addr -> kv
	Cmds      []CmdRec                     // global order
	Ticks     int
	faultUsed []bool
	Down      map[string]bool // nodes that currently refuse connections and fail health probes
	dialCount map[string]int
	Steps     int
	Events    []string // labels of the events taken (only when tracing)

	Panic        interface{}
	Stack        string
	Livelock     bool
	HorizonHit   bool
	RunErr       error
	EarlyViol    *Violation
	ProbeReplies int
	ClusterView  []NodeSpec // what the nodes report in CLUSTER NODES (nil: Sc.Nodes); changed by the "nodes-change" fault
	refreshDone  chan struct{}
	refreshPanic interface{}
	barrier      chan string
	barrierSeq   int
	refreshKill  bool
	goBase       int
	RefreshDead  bool
	TickUnread   []map[int]bool // per TICK: Seq of commands whose reply the proxy had not completely read yet
	Topo         []NodeSpec     // current topology as last injected (nil: Sc.Nodes)
	deferred     []*Client      // clients whose ConnectGate has not held yet
	LastFd       int            // descriptor and readiness mask of the event handed to the proxy most recently
	LastMask     uint32
}

type evKind int

const (
	evTasks evKind = iota
	evBackend
	evClient
	evAccept
	evWritable
	evFault
	evClientClose
	evTick
	evThread // a background thread of the proxy (health monitor): its ticker fires / its sleep ends
)

type event struct {
	kind evKind
	idx  int
}

func (e event) label(w *World) string {
	switch e.kind {
	case evTasks:
		return "TASKS"
	case evBackend:
		return fmt.Sprintf("RD(b%d@%s)", e.idx, w.BConns[e.idx].Addr)
	case evClient:
		return fmt.Sprintf("RD(c%d)", e.idx)
	case evAccept:
		return "ACCEPT"
	case evWritable:
		return fmt.Sprintf("WR(fd%d)", e.idx)
	case evFault:
		return fmt.Sprintf("FAULT(%s %s)", w.Sc.Faults[e.idx].Kind, w.Sc.Faults[e.idx].Addr)
	case evClientClose:
		return fmt.Sprintf("CLOSE(c%d)", e.idx)
	case evTick:
		return fmt.Sprintf("TICK(%s)", w.Sc.Ticks[w.Ticks])
	case evThread:
		if e.idx < len(vsys.Threads) {
			t := vsys.Threads[e.idx]
			if t.Sleeping {
				return fmt.Sprintf("THREAD(%s#%d wakes)", t.Name, e.idx)
			}
			return fmt.Sprintf("THREAD(%s#%d ticker)", t.Name, e.idx)
		}
	}
	return "?"
}

// NodesText renders CLUSTER NODES output for the scenario topology.
func NodesText(nodes []NodeSpec) string {
	var lines []string
	for i, n := range nodes {
		flags := "master"
		m := "-"
		if n.Master != "" {
			flags = "slave"
			m = n.Master
		}
		if n.Flags != "" {
			flags += "," + n.Flags
		}
		link := n.Link
		if link == "" {
			link = "connected"
		}
		l := fmt.Sprintf("%s %s@1%s %s %s 0 0 %d %s", n.Name, n.Addr, n.Addr[strings.LastIndex(n.Addr, ":")+1:], flags, m, i+1, link)
		for _, s := range n.Slots {
			if s[0] == s[1] {
				l += fmt.Sprintf(" %d", s[0])
			} else {
				l += fmt.Sprintf(" %d-%d", s[0], s[1])
			}
		}
		for _, mk := range n.Markers {
			l += " " + mk
		}
		lines = append(lines, l)
	}
	return strings.Join(lines, "\n")
}

func (sc *Scenario) node(addr string) *NodeSpec {
	for i := range sc.Nodes {
		if sc.Nodes[i].Addr == addr {
			return &sc.Nodes[i]
		}
	}
	return nil
}

// MasterOf returns the node spec of the master owning slot (nil if unowned).
func (sc *Scenario) MasterOf(slot int) *NodeSpec {
	for i := range sc.Nodes {
		n := &sc.Nodes[i]
		if n.Master != "" {
			continue
		}
		for _, r := range n.Slots {
			if slot >= r[0] && slot <= r[1] {
				return n
			}
		}
	}
	return nil
}

// ReplicaSet returns addresses of the master owning slot and of its replicas.
func (sc *Scenario) ReplicaSet(slot int) (master string, replicas []string) {
	m := sc.MasterOf(slot)
	if m == nil {
		return "", nil
	}
	for _, n := range sc.Nodes {
		if n.Master == m.Name {
			replicas = append(replicas, n.Addr)
		}
	}
	return m.Addr, replicas
}

// Execute runs one execution of the scenario under the given chooser.
func Execute(sc *Scenario, choose vsys.Chooser) *World {
	return ExecuteWith(sc, choose, nil)
}

// ExecuteWith is Execute with a custom boot step (boot must set w.VW); nil = the standard boot:
// real engine on the simulated kernel, topology injected through the real refresh code, one ticker round.
func ExecuteWith(sc *Scenario, choose vsys.Chooser, boot func(w *World)) *World {
	w := &World{Sc: sc, KV: map[string]map[string]string{}, dialCount: map[string]int{}, Down: map[string]bool{}}
	w.faultUsed = make([]bool, len(sc.Faults))
	vsys.Reset()
	vsys.Choose = choose
	vsys.WriteOracle = sc.WriteOracle
	vsys.IntnChoice = sc.IntnChoice
	vsys.ThreadsEnabled = sc.Monitors
	vsys.DetectHook = func(addr string) error {
		if w.Down[addr] {
			return fmt.Errorf("dial tcp %s: connection refused", addr)
		}
		return nil
	}
	vsys.RedisDialHook = w.redisDial
	vsys.RealDetect = true
	vsys.IntnGate = nil
	if sc.IntnGate != nil {
		vsys.IntnGate = func() bool { return sc.IntnGate(w) }
	}
	vsys.ReuseFds = sc.ReuseFds
	vsys.OrderSites = map[string]bool{}
	for _, s := range sc.OrderSites {
		vsys.OrderSites[s] = true
	}
	logging.VerifResetLog()
	logging.DebugOn = sc.DebugLog
	server.VerifReset()
	if sc.Whitelist == nil {
		authip.VerifSet(false)
	} else {
		authip.VerifSet(true, sc.Whitelist...)
	}
	w.Ln = vsys.NewSock("listener")
	w.Ln.Listener = true
	vsys.DialHook = w.dial
	vsys.WaitHook = w.wait

	rc, wc := sc.ReadCap, sc.WriteCap
	if rc == 0 {
		rc = 64
	}
	if wc == 0 {
		wc = 64
	}
	ml := sc.MaxLen
	if ml == 0 {
		ml = 1 << 20
	}
	conns := sc.ServerConns
	if conns == 0 {
		conns = 1
	}
	w.Opts = &core.Options{ReadBufferCap: rc, WriteBufferCap: wc, RedisMsgMaxLength: ml, RedisServerConnections: conns,
		RedisConnectionTimeout: 200, RedisRequestTimeout: sc.TimeoutMs, RedisPasswd: sc.Password, RedisSlowlogSlowerThan: int64(sc.SlowlogMs)}
	retry := sc.RetryTimeoutMs
	if retry == 0 {
		retry = 500
	}
	w.Handler = server.NewListenServer(server.WithRedisPassword(sc.Password), server.WithServerRetryTimeout(retry), server.WithDisableRedisSlave(sc.DisableSlave))

	for i := range sc.Clients {
		cs := &sc.Clients[i]
		c := &Client{Idx: i, Spec: cs}
		s := vsys.NewPendingSock(fmt.Sprintf("c%d", i))
		s.Addr = cs.IP
		if s.Addr == [4]byte{} {
			s.Addr = [4]byte{127, 0, 0, 1}
		}
		s.Port = 40000 + i
		s.Slow = cs.Slow
		c.Sock = s
		cc := c
		s.OnWrite = func(b []byte) { cc.onBytes(b) }
		s.OnClose = func() { cc.ProxyClosed = true; cc.BytesAtClose = len(cc.Received) }
		w.Clients = append(w.Clients, c)
		if cs.ConnectGate != nil {
			w.deferred = append(w.deferred, c)
			continue
		}
		w.Ln.Pending = append(w.Ln.Pending, s)
	}

	func() {
		defer func() {
			if r := recover(); r != nil {
				w.notePanic(r, "")
			}
		}()
		if boot != nil {
			boot(w)
			return
		}
		if sc.RefreshLoop {
			w.barrier = make(chan string, 8)
		}
		if sc.RealBoot {
			w.Opts.RedisServers = strings.Join(sc.Seeds, ",")
			w.Opts.RedisPreconnect = sc.Preconnect
			var vw *core.VerifWorld
			var err error
			if sc.RealRun {
				w.Opts.RedisMsgMaxLength, w.Opts.RedisServerConnections, w.Opts.RedisConnectionTimeout = sc.MaxLen, sc.ServerConns, 0
				vw, err = core.VerifBootRun(w.Handler, w.Ln.Fd, w.Opts)
				if err == nil {
					w.Opts = vw.Options()
				}
			} else {
				vw, err = core.VerifBootReal(w.Handler, w.Ln.Fd, w.Opts)
			}
			if err != nil {
				w.RunErr = err
				return
			}
			w.VW = vw
			if !sc.NoBootTick {
				if p := vw.VerifTicker(); p != nil {
					w.notePanic(p, "")
				}
			}
			if sc.AfterBoot != nil {
				sc.AfterBoot(w)
			}
			if sc.RefreshLoop {
				w.refreshDone = core.VerifRunRefreshLoop(&w.refreshPanic)
				w.goBase = runtime.NumGoroutine()
			}
			return
		}
		vw, err := core.VerifBoot(w.Handler, w.Ln.Fd, w.Opts, NodesText(sc.Nodes), func(addr string) (*redis.Info, error) {
			if strings.HasPrefix(addr, "10.255.") {
				if w.refreshKill {
					runtime.Goexit() // end of the execution: terminate the refresh goroutine from inside
				}
				w.barrier <- addr
			}
			return &redis.Info{MasterLinkStatus: "up", Version: "6.0.0"}, nil
		})
		if err != nil {
			w.RunErr = err
			return
		}
		w.VW = vw
		if !sc.NoBootTick {
			if p := vw.VerifTicker(); p != nil {
				w.notePanic(p, "")
			}
		}
		if sc.AfterBoot != nil {
			sc.AfterBoot(w)
		}
		if sc.RefreshLoop {
			w.refreshDone = core.VerifRunRefreshLoop(&w.refreshPanic)
			w.goBase = runtime.NumGoroutine()
		}
	}()
	if w.VW == nil || w.Panic != nil || w.Livelock {
		return w
	}
	defer w.stopRefresh()
	err, p, st := w.VW.Run()
	if p != nil {
		w.notePanic(p, st)
	} else if err != nil && err != vsys.ErrStop {
		w.RunErr = err
	}
	return w
}

// syncRefresh: every probe reply pushed so far has been processed by the real refresh goroutine.
func (w *World) syncRefresh() {
	if w.refreshDone == nil || w.RefreshDead {
		return
	}
	w.barrierSeq++
	line := fmt.Sprintf("bar 10.255.%d.%d:1@11 slave nobody 0 0 1 connected", w.barrierSeq/250, w.barrierSeq%250)
	if !core.VerifSendProbeReply(Bulk(line+"\n"), w.refreshDone) {
		w.RefreshDead = true
	} else {
		select {
		case <-w.barrier:
		case <-w.refreshDone:
			w.RefreshDead = true
		}
	}
	core.VerifQuiesce(w.goBase)
}

func (w *World) stopRefresh() {
	if w.refreshDone == nil || w.RefreshDead {
		return
	}
	w.refreshKill = true
	if core.VerifSendProbeReply(Bulk("bar 10.255.250.1:1@11 slave nobody 0 0 1 connected\n"), w.refreshDone) {
		<-w.refreshDone
	}
}

func (w *World) notePanic(r interface{}, stack string) {
	if _, ok := r.(vsys.Livelock); ok {
		w.Livelock = true
		return
	}
	w.Panic = r
	w.Stack = stack
}

func (c *Client) onBytes(b []byte) {
	c.Received = append(c.Received, b...)
	rs, _, _ := SplitReplies(c.Received)
	c.NReplies = len(rs)
}

// ---------------------------------------------------------------------------------------------
// scheduling point

func (w *World) enabled() []event {
	var evs []event
	if m, ok := vsys.Interest(vsys.EfdFd()); ok && m&unix.EPOLLIN != 0 && vsys.EfdReady() {
		evs = append(evs, event{evTasks, 0})
	}
	for i, bc := range w.BConns {
		s := bc.Sock
		if s.Closed {
			continue
		}
		in, ok := vsys.Interest(s.Fd)
		if !ok || in&unix.EPOLLIN == 0 {
			continue
		}
		if len(s.Rx) > 0 || s.PeerFIN || s.PeerRST || bc.headReady(w) {
			evs = append(evs, event{evBackend, i})
		}
	}
	for i, c := range w.Clients {
		s := c.Sock
		if !c.Accepted || s.Closed {
			continue
		}
		in, ok := vsys.Interest(s.Fd)
		if !ok || in&unix.EPOLLIN == 0 {
			continue
		}
		if len(s.Rx) > 0 || s.PeerFIN || s.PeerRST || c.chunkReady(w) {
			evs = append(evs, event{evClient, i})
		}
	}
	for len(w.deferred) > 0 && w.deferred[0].Spec.ConnectGate(w) {
		w.Ln.Pending = append(w.Ln.Pending, w.deferred[0].Sock)
		w.deferred = w.deferred[1:]
	}
	if in, ok := vsys.Interest(w.Ln.Fd); ok && in&unix.EPOLLIN != 0 && len(w.Ln.Pending) > 0 {
		evs = append(evs, event{evAccept, 0})
	}
	// writable again
	for _, c := range w.Clients {
		if c.Accepted && !c.Sock.Closed && c.Sock.Unwritable && !c.Sock.PeerRST {
			if in, ok := vsys.Interest(c.Sock.Fd); ok && in&unix.EPOLLOUT != 0 {
				evs = append(evs, event{evWritable, c.Sock.Fd})
			}
		}
	}
	for _, bc := range w.BConns {
		if !bc.Sock.Closed && bc.Sock.Unwritable && !bc.Sock.PeerRST {
			if in, ok := vsys.Interest(bc.Sock.Fd); ok && in&unix.EPOLLOUT != 0 {
				evs = append(evs, event{evWritable, bc.Sock.Fd})
			}
		}
	}
	for i, f := range w.Sc.Faults {
		if w.faultUsed[i] || w.Ticks < f.AfterTicks || (f.Gate != nil && !f.Gate(w)) {
			continue
		}
		if f.Kind == "topo" || f.Kind == "nodes-change" || f.Kind == "node-down" || f.Kind == "node-up" || f.Kind == "whitelist" {
			evs = append(evs, event{evFault, i})
		} else if bc := w.faultTarget(f); bc != nil {
			evs = append(evs, event{evFault, i})
		}
	}
	for i, c := range w.Clients {
		if c.Spec.CloseAfter > 0 && c.Accepted && !c.PeerClosed && !c.Sock.Closed && c.next >= c.Spec.CloseAfter {
			evs = append(evs, event{evClientClose, i})
		}
	}
	if w.Sc.Monitors {
		vsys.SettleThreads()
		for i, t := range vsys.Threads {
			if t.SleeperDue() || t.TickerDue() != nil {
				evs = append(evs, event{evThread, i})
			}
		}
	}
	if w.Ticks < len(w.Sc.Ticks) && (w.Sc.TickGate == nil || w.Sc.TickGate(w)) {
		evs = append(evs, event{evTick, 0})
	}
	return evs
}

func (w *World) faultTarget(f Fault) *BConn {
	for _, bc := range w.BConns {
		if bc.Addr == f.Addr && !bc.Sock.Closed && !bc.Sock.PeerFIN && !bc.Sock.PeerRST && len(bc.Log) >= f.AfterW {
			return bc
		}
	}
	return nil
}

func (bc *BConn) headReady(w *World) bool {
	if len(bc.outbox) == 0 {
		return false
	}
	h := bc.outbox[0].hold
	return h == 0 || (h > 0 && w.Ticks >= h)
}

// Delivered: number of chunks of this client already handed to the proxy's socket and read by it.
func (c *Client) DeliveredChunks() int {
	if len(c.Sock.Rx) > 0 && c.next > 0 {
		return c.next - 1
	}
	return c.next
}

func (c *Client) chunkReady(w *World) bool {
	if c.PeerClosed || c.next >= len(c.Spec.Chunks) {
		return false
	}
	ch := c.Spec.Chunks[c.next]
	return c.NReplies >= ch.WaitReplies && w.Ticks >= ch.WaitTicks && (ch.Gate == nil || ch.Gate(w))
}

func (w *World) wait() (fd int, mask uint32, n int, stop bool) {
	for {
		if w.Sc.Quiescent != nil && w.EarlyViol == nil {
			if v := w.Sc.Quiescent(w); v != nil {
				w.EarlyViol = v
				return 0, 0, 0, true
			}
		}
		if w.Sc.RefreshLoop {
			w.syncRefresh()
			if w.refreshPanic != nil && w.EarlyViol == nil {
				w.EarlyViol = &Violation{Sig: "refresh-loop-panics", Msg: fmt.Sprintf("the refresh goroutine panicked: %v", w.refreshPanic)}
				return 0, 0, 0, true
			}
		} else {
			for _, m := range func() [][]byte {
				if w.Sc.NoProbeDrain {
					return nil
				}
				return core.VerifDrainClusterChan()
			}() {
				_ = m
				w.ProbeReplies++
			}
		}
		evs := w.enabled()
		if len(evs) == 0 {
			return 0, 0, 0, true
		}
		hz := w.Sc.Horizon
		if hz == 0 {
			hz = 400
		}
		w.Steps++
		if w.Steps > hz {
			w.HorizonHit = true
			return 0, 0, 0, true
		}
		k := 0
		if len(evs) > 1 {
			k = vsys.Choose("sched", len(evs))
		}
		ev := evs[k]
		if vsys.Tracing {
			var ls []string
			for _, e := range evs {
				ls = append(ls, e.label(w))
			}
			vsys.Tracef("== step %d: %s   (enabled: %s)", w.Steps, ev.label(w), strings.Join(ls, " "))
		}
		switch ev.kind {
		case evTasks:
			return vsys.EfdFd(), unix.EPOLLIN, 1, false
		case evBackend:
			bc := w.BConns[ev.idx]
			if len(bc.Sock.Rx) == 0 && bc.headReady(w) {
				// how many of the ready chunks arrive in this one read
				ready := 0
				for ready < len(bc.outbox) {
					h := bc.outbox[ready].hold
					if !(h == 0 || (h > 0 && w.Ticks >= h)) {
						break
					}
					ready++
				}
				take := 1
				if ready > 1 {
					if w.Sc.CoalesceAll {
						take = ready
					} else if w.Sc.CoalesceChoice {
						take = 1 + vsys.Choose("coalesce", ready)
					}
				}
				for ; take > 0; take-- {
					bc.Sock.Rx = append(bc.Sock.Rx, bc.outbox[0].data...)
					if bc.outbox[0].last {
						bc.Delivered++
						if bc.outbox[0].hs && bc.hsMerged > 0 {
							bc.Delivered += bc.hsMerged
							bc.hsMerged = 0
						}
					}
					bc.outbox = bc.outbox[1:]
				}
			}
			w.LastFd, w.LastMask = bc.Sock.Fd, vsys.ReadyMask(bc.Sock.Fd)
			return bc.Sock.Fd, w.LastMask, 1, false
		case evClient:
			c := w.Clients[ev.idx]
			if len(c.Sock.Rx) == 0 && c.chunkReady(w) {
				c.Sock.Rx = append(c.Sock.Rx, c.Spec.Chunks[c.next].Data...)
				c.next++
				if c.Spec.Flood {
					top := func() {
						for len(c.Sock.Rx) < 2*w.Opts.ReadBufferCap && !c.PeerClosed && c.next < len(c.Spec.Chunks) {
							c.Sock.Rx = append(c.Sock.Rx, c.Spec.Chunks[c.next].Data...)
							c.next++
						}
					}
					c.Sock.AfterRead = top
					top()
				}
			}
			w.LastFd, w.LastMask = c.Sock.Fd, vsys.ReadyMask(c.Sock.Fd)
			return c.Sock.Fd, w.LastMask, 1, false
		case evAccept:
			w.Ln.Pending[0].Name = w.Ln.Pending[0].Name // accepted in Accept()
			for _, c := range w.Clients {
				if c.Sock == w.Ln.Pending[0] {
					c.Accepted = true
				}
			}
			return w.Ln.Fd, unix.EPOLLIN, 1, false
		case evWritable:
			s := vsys.Lookup(ev.idx)
			s.Unwritable = false
			w.LastFd, w.LastMask = s.Fd, vsys.ReadyMask(s.Fd)
			return s.Fd, w.LastMask, 1, false
		case evFault:
			f := w.Sc.Faults[ev.idx]
			w.faultUsed[ev.idx] = true
			if f.Kind == "nodes-change" {
				w.ClusterView = f.Nodes // from now on the nodes describe this topology in CLUSTER NODES
				w.Topo = f.Nodes
				continue
			}
			if f.Kind == "whitelist" {
				if err := os.WriteFile(filepath.Join(f.Dir, "authip.yaml"), []byte(f.Text), 0o644); err == nil {
					err = authip.VerifReload(f.Dir, "authip.yaml")
					if err != nil {
						vsys.Tracef("whitelist reload failed: %v", err)
					}
				}
				continue
			}
			if f.Kind == "node-down" || f.Kind == "node-up" {
				w.Down[f.Addr] = f.Kind == "node-down"
				continue
			}
			if f.Kind == "topo" {
				w.Topo = f.Nodes
				if err := core.VerifUpdateNodes(NodesText(f.Nodes)); err != nil {
					vsys.Tracef("topology update rejected: %v", err)
				}
				continue
			}
			bc := w.faultTarget(f)
			if f.Kind == "backend-rst" {
				bc.Sock.PeerRST = true
				bc.Sock.Rx = nil
			} else {
				bc.Sock.PeerFIN = true
			}
			bc.outbox = nil
			continue // the close becomes visible through RD(b)
		case evClientClose:
			c := w.Clients[ev.idx]
			c.PeerClosed = true
			if c.Spec.CloseRST {
				c.Sock.PeerRST = true
				c.Sock.Rx = nil
			} else {
				c.Sock.PeerFIN = true
			}
			continue
		case evThread:
			t := vsys.Threads[ev.idx]
			if t.SleeperDue() {
				t.Wake()
			} else if tk := t.TickerDue(); tk != nil {
				tk.Fire()
			}
			if vsys.ThreadPanic != "" && w.Panic == nil {
				w.Panic = "background thread " + vsys.ThreadPanic
				return 0, 0, 0, true
			}
			continue
		case evTick:
			// remember which backend replies the proxy had not read when the clock jumped
			unread := map[int]bool{}
			for _, bc := range w.BConns {
				for i, rec := range bc.Log {
					if !bc.ReadByProxy(i) {
						unread[rec.Seq] = true
					}
				}
			}
			w.TickUnread = append(w.TickUnread, unread)
			vsys.Advance(w.Sc.Ticks[w.Ticks])
			w.Ticks++
			if w.Sc.BusyTicks {
				continue // time passed while events kept arriving: the next event is returned by this same epoll_wait
			}
			return 0, 0, 0, false
		}
	}
}

// ---------------------------------------------------------------------------------------------
// backend model

func (w *World) dial(addr string) *vsys.Sock {
	w.dialCount[addr]++
	if w.Down[addr] {
		return nil
	}
	if n, ok := w.Sc.RefuseDial[addr]; ok {
		if n < 0 || w.dialCount[addr] <= n {
			return nil
		}
	}
	node := w.Sc.node(addr)
	if node == nil {
		for i := range w.Topo {
			if w.Topo[i].Addr == addr {
				node = &w.Topo[i]
			}
		}
	}
	if node == nil {
		return nil // nobody listens there
	}
	s := vsys.NewSock("b@" + addr)
	s.Slow = w.Sc.SlowBackends
	bc := &BConn{ID: len(w.BConns), Addr: addr, Node: node, Sock: s}
	s.OnWrite = func(b []byte) { w.feed(bc, b) }
	w.BConns = append(w.BConns, bc)
	return s
}

func (w *World) nodePassword() string {
	if w.Sc.NodePassword != "" {
		if w.Sc.NodePassword == "-" {
			return ""
		}
		return w.Sc.NodePassword
	}
	return w.Sc.Password
}

func (w *World) feed(bc *BConn, b []byte) {
	if bc.Malformed != "" {
		return
	}
	if bc.Sock.PeerFIN || bc.Sock.PeerRST {
		bc.WrittenAfterClose += len(b) // the node has closed this connection: nobody reads these bytes
		return
	}
	bc.inbox = append(bc.inbox, b...)
	obStart := len(bc.outbox)
	defer func() {
		if w.Sc.HandshakeCuts == nil || len(bc.outbox)-obStart < 1 {
			return
		}
		// coalesce the handshake replies produced by this write and re-cut them
		var all []byte
		n := 0
		for _, c := range bc.outbox[obStart:] {
			if !c.hs {
				break
			}
			all = append(all, c.data...)
			n++
		}
		if n == 0 {
			return
		}
		rest := append([]outChunk{}, bc.outbox[obStart+n:]...)
		bc.outbox = bc.outbox[:obStart]
		prev := 0
		for _, c := range w.Sc.HandshakeCuts {
			if c > prev && c < len(all) {
				bc.outbox = append(bc.outbox, outChunk{all[prev:c], 0, false, true})
				prev = c
			}
		}
		bc.outbox = append(bc.outbox, outChunk{all[prev:], 0, true, true})
		bc.Delivered -= 0
		bc.hsMerged += n - 1
		bc.outbox = append(bc.outbox, rest...)
	}()
	for len(bc.inbox) > 0 {
		args, n, st := ParseRequestStrict(bc.inbox)
		if st == ParseIncomplete {
			return
		}
		if st == ParseMalformed {
			bc.Malformed = string(clipb(bc.inbox, 200))
			return
		}
		raw := append([]byte{}, bc.inbox[:n]...)
		bc.inbox = bc.inbox[n:]
		cp := make([][]byte, len(args))
		for i, a := range args {
			cp[i] = append([]byte{}, a...)
		}
		reply, hold := w.answer(bc, cp)
		cr := 0
		for _, c := range w.Clients {
			cr += c.NReplies
		}
		rec := CmdRec{Replica: w.isReplicaNow(bc.Addr), ReadOnly: bc.ReadOnly, CR: cr, Seq: len(w.Cmds), Addr: bc.Addr, Conn: bc.ID, Raw: raw, Args: cp, Reply: reply}
		bc.Log = append(bc.Log, rec)
		w.Cmds = append(w.Cmds, rec)
		if hold < 0 {
			// never answered; later replies on this connection queue behind it (a stalled server)
			bc.outbox = append(bc.outbox, outChunk{nil, -1, true, false})
			continue
		}
		cuts := w.Sc.ReplyCuts
		prev := 0
		for _, c := range cuts {
			if c > prev && c < len(reply) {
				bc.outbox = append(bc.outbox, outChunk{reply[prev:c], hold, false, false})
				prev = c
			}
		}
		name0 := Lower(cp[0])
		bc.outbox = append(bc.outbox, outChunk{reply[prev:], hold, true, name0 == "auth" || name0 == "readonly"})
	}
}

func clipb(b []byte, n int) []byte {
	if len(b) > n {
		return b[:n]
	}
	return b
}

func (w *World) answer(bc *BConn, args [][]byte) ([]byte, int) {
	name := Lower(args[0])
	pw := w.nodePassword()
	switch name {
	case "auth":
		if bc.SawData {
			bc.BadOrder = "AUTH after data"
		}
		bc.PreData = append(bc.PreData, "auth")
		if pw == "" {
			return []byte(RErrAuthNoPw), 0
		}
		if len(args) == 2 && string(args[1]) == pw {
			bc.Authed = true
			return []byte(ROK), 0
		}
		return []byte("-ERR invalid password\r\n"), 0
	case "readonly":
		if bc.SawData {
			bc.BadOrder = "READONLY after data"
		}
		bc.PreData = append(bc.PreData, "readonly")
		if pw != "" && !bc.Authed {
			return []byte("-NOAUTH Authentication required.\r\n"), 0
		}
		bc.ReadOnly = true
		return []byte(ROK), 0
	case "asking":
		bc.Asking = true
		return []byte(ROK), 0
	case "cluster":
		if pw != "" && !bc.Authed {
			return []byte("-NOAUTH Authentication required.\r\n"), 0
		}
		view := w.Sc.Nodes
		if w.ClusterView != nil {
			view = w.ClusterView
		}
		return Bulk(NodesText(view) + "\n"), 0
	}
	bc.SawData = true
	if pw != "" && !bc.Authed {
		return []byte("-NOAUTH Authentication required.\r\n"), 0
	}
	asking := bc.Asking
	bc.Asking = false
	_ = asking
	if w.Sc.Reply != nil {
		if r, hold := w.Sc.Reply(w, bc, args); r != nil || hold != 0 {
			return r, hold
		}
	}
	if w.Sc.CheckOwner && len(args) > 1 {
		ki := 1
		if name == "eval" || name == "evalsha" {
			ki = 3
		}
		if ki < len(args) {
			slot := SpecSlot(args[ki])
			m := w.masterNow(slot)
			if m == nil {
				return []byte("-CLUSTERDOWN Hash slot not served\r\n"), 0
			}
			// a replica serves READS of its master's slots on a READONLY connection; writes are redirected to the master
			isWrite := false
			if sp, ok := SpecTable[name]; ok {
				isWrite = sp.Write
			}
			owner := m.Addr == bc.Addr || (bc.Node.Master == m.Name && bc.ReadOnly && !isWrite)
			if !owner {
				return []byte(fmt.Sprintf("-MOVED %d %s\r\n", slot, m.Addr)), 0
			}
		}
	}
	if w.Sc.Stateful {
		return w.kvAnswer(bc, name, args), 0
	}
	return DefaultReply(name, args), 0
}

// ValueOf is the stateless model's value for a key.
func ValueOf(key []byte) []byte {
	switch {
	case strings.HasPrefix(string(key), "nil"):
		return []byte("$-1\r\n")
	case strings.HasPrefix(string(key), "emp"):
		return []byte("$0\r\n\r\n")
	case strings.HasPrefix(string(key), "crlf"):
		return Bulk("v\r\n:" + string(key) + "\r\n$3")
	}
	return Bulk("v:" + string(key))
}

func DelCount(key []byte) int {
	if strings.HasPrefix(string(key), "nil") {
		return 0
	}
	return 1
}

// DefaultReply is the stateless deterministic node model: the reply is a function of the command
// and embeds the key, so that a reply delivered to the wrong request is always distinguishable.
func DefaultReply(name string, args [][]byte) []byte {
	switch name {
	case "get":
		return ValueOf(args[1])
	case "mget":
		out := []byte(fmt.Sprintf("*%d\r\n", len(args)-1))
		for _, k := range args[1:] {
			out = append(out, ValueOf(k)...)
		}
		return out
	case "del":
		n := 0
		for _, k := range args[1:] {
			n += DelCount(k)
		}
		return []byte(fmt.Sprintf(":%d\r\n", n))
	case "mset", "set":
		return []byte(ROK)
	case "ping":
		return []byte(RPong)
	}
	key := ""
	if len(args) > 1 {
		key = string(args[1])
	}
	return Bulk("r:" + name + ":" + key)
}

func (w *World) kvAnswer(bc *BConn, name string, args [][]byte) []byte {
	// replicas share their master's data set (replication is instantaneous in the model)
	store := bc.Addr
	if bc.Node.Master != "" {
		for _, n := range w.Sc.Nodes {
			if n.Name == bc.Node.Master {
				store = n.Addr
			}
		}
	}
	kv := w.KV[store]
	if kv == nil {
		kv = map[string]string{}
		w.KV[store] = kv
	}
	get := func(k []byte) []byte {
		v, ok := kv[string(k)]
		if !ok {
			return []byte("$-1\r\n")
		}
		return Bulk(v)
	}
	switch name {
	case "get":
		return get(args[1])
	case "set":
		kv[string(args[1])] = string(args[2])
		return []byte(ROK)
	case "append":
		kv[string(args[1])] += string(args[2])
		return []byte(fmt.Sprintf(":%d\r\n", len(kv[string(args[1])])))
	case "mget":
		out := []byte(fmt.Sprintf("*%d\r\n", len(args)-1))
		for _, k := range args[1:] {
			out = append(out, get(k)...)
		}
		return out
	case "mset":
		for i := 1; i+1 < len(args); i += 2 {
			kv[string(args[i])] = string(args[i+1])
		}
		return []byte(ROK)
	case "del":
		n := 0
		for _, k := range args[1:] {
			if _, ok := kv[string(k)]; ok {
				n++
				delete(kv, string(k))
			}
		}
		return []byte(fmt.Sprintf(":%d\r\n", n))
	}
	return DefaultReply(name, args)
}

// ---------------------------------------------------------------------------------------------
// outcome helpers

// Fingerprint summarises the observable outcome (for distinct-outcome counting).
func (w *World) Fingerprint() string {
	var sb strings.Builder
	for _, c := range w.Clients {
		fmt.Fprintf(&sb, "c%d:%q/%v;", c.Idx, c.Received, c.ProxyClosed)
	}
	per := map[string][]string{}
	for _, r := range w.Cmds {
		per[r.Addr] = append(per[r.Addr], string(r.Raw))
	}
	var addrs []string
	for a := range per {
		addrs = append(addrs, a)
	}
	sort.Strings(addrs)
	for _, a := range addrs {
		fmt.Fprintf(&sb, "%s:%q;", a, per[a])
	}
	fmt.Fprintf(&sb, "p=%v l=%v h=%v", w.Panic != nil, w.Livelock, w.HorizonHit)
	return sb.String()
}

// masterNow: the (non-failed) master that owns slot in the topology the nodes currently have.
func (w *World) masterNow(slot int) *NodeSpec {
	nodes := w.Sc.Nodes
	if w.ClusterView != nil {
		nodes = w.ClusterView
	} else if w.Topo != nil {
		nodes = w.Topo
	}
	for i := range nodes {
		n := &nodes[i]
		if n.Master != "" || strings.Contains(n.Flags, "fail") {
			continue
		}
		for _, r := range n.Slots {
			if slot >= r[0] && slot <= r[1] {
				return n
			}
		}
	}
	return nil
}

// isReplicaNow: role of addr in the topology last injected.
func (w *World) isReplicaNow(addr string) bool {
	nodes := w.Sc.Nodes
	if w.Topo != nil {
		nodes = w.Topo
	}
	for _, n := range nodes {
		if n.Addr == addr {
			return n.Master != ""
		}
	}
	return false
}

// ProbesIdle: every CLUSTER NODES probe sent so far has been answered and the answer read by the proxy, and no task is pending.
func (w *World) ProbesIdle() bool {
	if vsys.EfdReady() {
		return false
	}
	for _, bc := range w.BConns {
		if bc.Sock.Closed {
			continue
		}
		for i, rec := range bc.Log {
			if Lower(rec.Args[0]) == "cluster" && !bc.ReadByProxy(i) {
				return false
			}
		}
	}
	return true
}

// ThreadsIdle: no background thread of the proxy has a due ticker or a finished sleep.
func (w *World) ThreadsIdle() bool {
	for _, t := range vsys.Threads {
		if t.SleeperDue() || t.TickerDue() != nil {
			return false
		}
	}
	return true
}

// DialCount: number of dials attempted to addr so far.
func (w *World) DialCount(addr string) int { return w.dialCount[addr] }

// FaultsDone: every scripted fault has been injected.
// FaultsUsed: number of scripted faults that have happened.
func (w *World) FaultsUsed() int {
	n := 0
	for _, u := range w.faultUsed {
		if u {
			n++
		}
	}
	return n
}

func (w *World) FaultsDone() bool {
	for _, u := range w.faultUsed {
		if !u {
			return false
		}
	}
	return true
}

// ReadByProxy: the reply to the i-th command on this connection has been completely read by the proxy.
func (bc *BConn) ReadByProxy(i int) bool {
	return bc.Delivered > i && len(bc.Sock.Rx) == 0
}

// DataCmds returns the data commands (no handshake / probe) a node address received, in order.
func (w *World) DataCmds(addr string) []CmdRec {
	var out []CmdRec
	for _, r := range w.Cmds {
		if addr != "" && r.Addr != addr {
			continue
		}
		switch Lower(r.Args[0]) {
		case "auth", "readonly", "cluster", "asking":
			continue
		}
		out = append(out, r)
	}
	return out
}

// ---------------------------------------------------------------------------------------------
// the scripted node as seen by the proxy's own redis client (core/pkg/redis): AUTH, INFO, PING

type probePeer struct {
	w      *World
	addr   string
	in     []byte
	out    []byte
	authed bool
}

func (w *World) redisDial(addr string) (vsys.RedisPeer, error) {
	if strings.HasPrefix(addr, "10.255.") {
		// the harness's barrier node (real boot: the refresh goroutine uses the real redis client for every address)
		if w.refreshKill {
			runtime.Goexit()
		}
		if w.barrier != nil {
			w.barrier <- addr
		}
		return nil, fmt.Errorf("dial tcp %s: barrier", addr)
	}
	if w.Down[addr] {
		return nil, fmt.Errorf("dial tcp %s: connect: connection refused", addr)
	}
	if w.Sc.Info != nil {
		if _, err := w.Sc.Info("dial:" + addr); err != nil {
			return nil, err
		}
	}
	return &probePeer{w: w, addr: addr}, nil
}

func (p *probePeer) Close() {}

func (p *probePeer) Write(b []byte) {
	p.in = append(p.in, b...)
	for {
		args, n, st := ParseRequestStrict(p.in)
		if st != ParseOK {
			return
		}
		p.in = p.in[n:]
		p.out = append(p.out, p.answer(args)...)
	}
}

func (p *probePeer) Read(b []byte) (int, error) {
	if len(p.out) == 0 {
		return 0, nil
	}
	n := len(p.out)
	if n > len(b) {
		n = len(b)
	}
	if k := p.w.Sc.ProbePiece; k > 0 && n > k {
		n = k
	}
	copy(b, p.out[:n])
	p.out = p.out[n:]
	return n, nil
}

func (p *probePeer) answer(args [][]byte) []byte {
	pw := p.w.nodePassword()
	switch Lower(args[0]) {
	case "auth":
		if pw == "" {
			return []byte(RErrAuthNoPw)
		}
		if len(args) == 2 && string(args[1]) == pw {
			p.authed = true
			return []byte(ROK)
		}
		return []byte("-ERR invalid password\r\n")
	case "ping":
		if pw != "" && !p.authed {
			return []byte("-NOAUTH Authentication required.\r\n")
		}
		return []byte(RPong)
	case "info":
		if pw != "" && !p.authed {
			return []byte("-NOAUTH Authentication required.\r\n")
		}
		info := &redis.Info{Version: "6.0.0", MasterLinkStatus: "up"}
		if p.w.Sc.Info != nil {
			if i, err := p.w.Sc.Info(p.addr); err == nil && i != nil {
				info = i
			}
		}
		loading := "0"
		if info.Loading {
			loading = "1"
		}
		// Redis 7 and later report async_loading right after loading (a line that CONTAINS "loading:" without starting with it)
		async := ""
		if info.Version >= "7" {
			async = "async_loading:0\r\n"
		}
		role := "master"
		text := "# Server\r\nredis_version:" + info.Version + "\r\nredis_mode:cluster\r\nos:Linux\r\n\r\n# Persistence\r\nloading:" + loading + "\r\n" + async + "rdb_changes_since_last_save:0\r\n\r\n# Replication\r\n"
		if n := p.w.Sc.node(p.addr); n != nil && n.Master != "" {
			role = "slave"
		}
		text += "role:" + role + "\r\n"
		if info.MasterLinkStatus != "" {
			text += "master_link_status:" + info.MasterLinkStatus + "\r\n"
		}
		text += "connected_slaves:0\r\n"
		return Bulk(text)
	}
	return []byte("-ERR unknown command\r\n")
}
