package checks

import (
	"fmt"
	"strings"

	"rcproxy/core/zz_verif/world"
)

// C01: replies arrive in request order, exactly one per request.

var c01Kinds = []string{"FA", "FB", "M2", "D2", "PING", "AUTH", "UNK", "ARITY", "RA", "KA"}

// keys whose owner A answers with a redirect to B (kind RA: -MOVED, kind KA: -ASK); B serves them
var c01Moved = map[string]bool{}
var c01Ask = map[string]bool{}

func c01RedirectKey(kind string, pos, client int) string {
	k := fmt.Sprintf("%s%d.%d", strings.ToLower(kind), pos, client)
	for i := 0; ; i++ {
		c := fmt.Sprintf("%s.%d", k, i)
		if world.SpecSlot([]byte(c)) <= 5460 {
			if kind == "RA" {
				c01Moved[c] = true
			} else {
				c01Ask[c] = true
			}
			return c
		}
	}
}

func c01RedirectReply(w *world.World, bc *world.BConn, args [][]byte) ([]byte, int) {
	if bc.Addr == AddrA && len(args) > 1 {
		k := string(args[1])
		if c01Moved[k] {
			return []byte(fmt.Sprintf("-MOVED %d %s\r\n", world.SpecSlot(args[1]), AddrB)), 0
		}
		if c01Ask[k] {
			return []byte(fmt.Sprintf("-ASK %d %s\r\n", world.SpecSlot(args[1]), AddrB)), 0
		}
	}
	return nil, 0
}

func c01Req(kind string, pos int, client int) Req {
	ka, kb := keysA[(pos+4*client)%len(keysA)], keysB[(pos+4*client)%len(keysB)]
	switch kind {
	case "FA":
		return GetReq(ka)
	case "FB":
		return GetReq(kb)
	case "M2":
		return MGetReq(ka, kb)
	case "D2":
		return DelReq(ka, kb)
	case "PING":
		return PingReq()
	case "AUTH":
		return AuthReq("pw", "")
	case "UNK":
		return UnknownReq()
	case "ARITY":
		return ArityReq()
	case "QUIT":
		return QuitReq()
	case "RA", "KA":
		return GetReq(c01RedirectKey(kind, pos, client))
	}
	panic(kind)
}

func isLocalKind(k string) bool {
	switch k {
	case "PING", "AUTH", "UNK", "ARITY", "QUIT":
		return true
	}
	return false
}

func pipelines(alpha []string, n int) [][]string {
	if n == 0 {
		return [][]string{{}}
	}
	var out [][]string
	for _, p := range pipelines(alpha, n-1) {
		for _, a := range alpha {
			out = append(out, append(append([]string{}, p...), a))
		}
	}
	return out
}

func c01Family(p []string) string {
	fam := "F-only"
	for _, k := range p {
		if k == "QUIT" {
			return "Q-last"
		}
		if isLocalKind(k) {
			fam = "L-mixed"
		}
	}
	return fam
}

func c01Scenario(pipes [][]string, oneChunk bool, bound int) *world.Scenario {
	sc := &world.Scenario{Nodes: T3m(), Bound: bound, Horizon: 300, Reply: c01RedirectReply}
	var kinds [][]string
	var names []string
	fam := "F-only"
	for ci, p := range pipes {
		var reqs []Req
		for j, k := range p {
			reqs = append(reqs, c01Req(k, j, ci))
		}
		sc.Clients = append(sc.Clients, ClientOf(reqs, oneChunk))
		kinds = append(kinds, p)
		names = append(names, strings.Join(p, ","))
		if f := c01Family(p); f == "Q-last" || (f == "L-mixed" && fam == "F-only") {
			fam = f
		}
	}
	ch := "split"
	if oneChunk {
		ch = "one"
	}
	sc.Family = fmt.Sprintf("%s/%dc", fam, len(pipes))
	sc.Name = fmt.Sprintf("C01/%s/%s/%s/d%d", fam, strings.Join(names, "|"), ch, bound)
	sc.Check = func(w *world.World) []world.Violation {
		vs := CheckStreams(w, StreamOpts{Kinds: kinds, LocalIdx: func(ci, j int) bool { return isLocalKind(kinds[ci][j]) }})
		return append(vs, BackendsWellFormed(w)...)
	}
	return sc
}

func c01Scenarios(tier string) []*world.Scenario {
	var out []*world.Scenario
	maxLen, d2, d3 := 3, 2, 1
	if tier == "thorough" {
		maxLen, d2, d3 = 4, 4, 3
	}
	for n := 1; n <= maxLen; n++ {
		for _, p := range pipelines(c01Kinds, n) {
			b := d2
			if n >= 3 {
				b = d3
			}
			if n >= 4 {
				b = 1
			}
			if tier == "thorough" && n <= 2 {
				b = -1
			}
			for _, one := range []bool{true, false} {
				out = append(out, c01Scenario([][]string{p}, one, b))
			}
			// QUIT in last position
			if n < maxLen {
				q := append(append([]string{}, p...), "QUIT")
				for _, one := range []bool{true, false} {
					out = append(out, c01Scenario([][]string{q}, one, b))
				}
			}
		}
	}
	// two concurrent clients
	two := 1
	if tier == "thorough" {
		two = 2
	}
	for n1 := 1; n1 <= two+1 && n1 <= 2; n1++ {
		for _, p1 := range pipelines(c01Kinds, n1) {
			for _, p2 := range pipelines(c01Kinds[:5], 1) {
				out = append(out, c01Scenario([][]string{p1, p2}, true, two))
			}
		}
	}
	// two clients share node connections and one backend read carries the replies of both (how many replies a read
	// carries is an enumerated choice); one of them closes by QUIT while its reply is delivered
	for _, p1 := range [][]string{{"FA", "QUIT"}, {"FA", "FA"}, {"M2", "QUIT"}} {
		for _, p2 := range [][]string{{"FA"}, {"M2"}, {"FA", "PING"}} {
			sc := c01Scenario([][]string{p1, p2}, true, two+1)
			sc.CoalesceChoice, sc.FreeKinds = true, []string{"coalesce"}
			sc.Name += "/coalesce-choice"
			sc.Family += "/coalesced"
			out = append(out, sc)
		}
	}
	// configurations: two connections per node (replies of one client's requests to the same node may then arrive
	// in either order), a password + replica topology (handshakes interleave with the first requests)
	for _, p := range [][]string{{"FA", "FA"}, {"FA", "FA", "PING"}, {"M2", "FA"}, {"FA", "D2", "FA"}, {"FA", "FB", "FA"}} {
		for _, one := range []bool{true, false} {
			sc := c01Scenario([][]string{p}, one, 2)
			sc.ServerConns = 2
			sc.Name += "/2conns"
			sc.Family += "/2conns"
			out = append(out, sc)
			sc2 := c01Scenario([][]string{p}, one, 2)
			sc2.Nodes, sc2.Password = T3(), "secret"
			sc2.Clients[0] = withAuthExpect(sc2.Clients[0], p)
			sc2.Name += "/pw+replicas"
			sc2.Family += "/pw+replicas"
			out = append(out, sc2)
		}
	}
	// several replies released by one vectored write to a client that reads slowly
	for _, sz := range [][3]int{{1, 30, 30}, {40, 3, 20}} {
		b := 2
		if tier == "thorough" {
			b = 3
		}
		out = append(out, SlowMultiFlush("C01", sz, b))
	}
	// cold backend connections that start with a handshake (password: AUTH; replicas: READONLY; both) whose replies arrive
	// in pieces (cut after the first +OK, inside a +OK, not at all) while requests are already pending on them
	for _, p := range [][]string{{"FA"}, {"FA", "FB"}, {"FA", "PING", "FA"}, {"M2", "FA"}} {
		for _, cfg := range []struct {
			pw  string
			rep bool
		}{{"secret", true}, {"secret", false}, {"", true}} {
			for _, cuts := range [][]int{{}, {5}, {2}, {5, 7}} {
				sc := c01Scenario([][]string{p}, true, 2)
				if cfg.rep {
					sc.Nodes = T3()
				}
				sc.Password = cfg.pw
				sc.HandshakeCuts = cuts
				sc.Name += fmt.Sprintf("/handshake-pw=%v-replicas=%v-cuts%v", cfg.pw != "", cfg.rep, cuts)
				sc.Family = "handshake-in-pieces"
				out = append(out, sc)
			}
		}
	}
	// replies that are EMPTY (empty bulk, empty array, null) in every position of short pipelines, alone and in one chunk
	{
		empties := map[string][]byte{keysA[9]: []byte("$0\r\n\r\n"), keysB[9]: []byte("*0\r\n"), keysA[10]: []byte("$-1\r\n"), keysB[10]: []byte("*1\r\n$0\r\n\r\n")}
		mkE := func(k string) Req {
			r := GetReq(k)
			r.Kind, r.Expect = "EMPTY", empties[k]
			return r
		}
		shapes := [][]Req{
			{mkE(keysA[9])}, {mkE(keysA[9]), GetReq(keysA[0])}, {GetReq(keysA[0]), mkE(keysA[9]), PingReq(), GetReq(keysA[1])},
			{mkE(keysB[9]), GetReq(keysB[0]), mkE(keysA[10]), GetReq(keysA[0])}, {mkE(keysB[10]), mkE(keysB[9]), GetReq(keysB[1])},
			{MGetReq(keysA[0], keysB[0]), mkE(keysA[9]), MGetReq(keysA[1], keysB[1])},
		}
		for i, reqs := range shapes {
			for _, one := range []bool{true, false} {
				sc := &world.Scenario{Nodes: T3m(), Bound: 2, Horizon: 300, Family: "empty-replies"}
				sc.Clients = []world.ClientSpec{ClientOf(reqs, one)}
				sc.Reply = func(w *world.World, bc *world.BConn, args [][]byte) ([]byte, int) {
					if len(args) == 2 && world.Lower(args[0]) == "get" {
						if r, ok := empties[string(args[1])]; ok {
							return r, 0
						}
					}
					return nil, 0
				}
				sc.Name = fmt.Sprintf("C01/empty-replies/shape%d/one=%v/d2", i, one)
				sc.Check = func(w *world.World) []world.Violation { return CheckStreams(w, StreamOpts{}) }
				out = append(out, sc)
			}
		}
	}
	// a slow client whose LOCAL replies (PING, unknown command, wrong arity) meet the full socket, more pipelined bytes behind
	for _, shape := range []string{"pings", "mixed"} {
		var reqs []Req
		for j := 0; j < 8; j++ {
			switch {
			case shape == "mixed" && j%4 == 1:
				reqs = append(reqs, UnknownReq())
			case shape == "mixed" && j%4 == 2:
				reqs = append(reqs, GetReq(keysA[j]))
			case shape == "mixed" && j%4 == 3:
				reqs = append(reqs, ArityReq())
			default:
				reqs = append(reqs, PingReq())
			}
		}
		cs := ClientOf(reqs, true)
		cs.Slow = true
		sc := &world.Scenario{Nodes: T3m(), Bound: 2, Horizon: 400, Family: "slow-client-local-replies", WriteOracle: true, Clients: []world.ClientSpec{cs}}
		sc.Name = fmt.Sprintf("C01/slow-client-local-replies/%s/d2", shape)
		sc.Check = func(w *world.World) []world.Violation { return CheckStreams(w, StreamOpts{}) }
		out = append(out, sc)
	}
	// a slow client with more than 64 KiB parked, a partial drain, then further forwarded and local replies
	out = append(out, SlowClientOverflow("C01", 40000, 2))
	// more replies / fragments than one vectored write takes (1024 slices)
	out = append(out, BigBatch("C01", 1100, false, 1), BigBatch("C01", 1100, true, 1), BigBatch("C01", 2100, false, 0))
	// exactly 1024 / 2048 (and one less, one more) fragments for one connection and replies in one flush
	for _, n := range []int{1022, 1023, 1024, 1025, 2047, 2048} {
		out = append(out, BigBatchOneNode("C01", n, 0))
	}
	// multi-key requests that can only be routed in part (one key in an unowned range) are answered locally
	// while an already routed fragment is still in flight; everything after them must still be answered in order
	out = append(out, c01Partial(tier)...)
	out = append(out, c01LocalVariants(tier)...)
	if tier == "thorough" {
		for _, p1 := range pipelines(c01Kinds[:5], 2) {
			for _, p2 := range pipelines(c01Kinds[:5], 2) {
				out = append(out, c01Scenario([][]string{p1, p2}, false, 2))
			}
		}
		for _, p := range pipelines([]string{"FA", "M2", "PING"}, 1) {
			out = append(out, c01Scenario([][]string{p, {"FA"}, {"M2"}}, true, 3))
		}
	}
	// a whole write batch to one silent node times out: one timeout error per request, in order (round 10)
	for _, n := range []int{2, 3, 5} {
		out = append(out, TimeoutBatch("C01", n, 2))
	}
	return out
}

// withAuthExpect: with a configured password "AUTH pw" (wrong password) is answered with the invalid-password error.
func withAuthExpect(cs world.ClientSpec, kinds []string) world.ClientSpec {
	for j, k := range kinds {
		if k == "AUTH" {
			cs.Expect[j] = []byte(world.RErrAuthBad)
		}
	}
	return cs
}

func c01Partial(tier string) []*world.Scenario {
	var out []*world.Scenario
	gap := keysGap[0]
	b := 2
	if tier == "thorough" {
		b = 4
	}
	partial := func(kind string, j int) Req {
		var r Req
		switch kind {
		case "mget":
			r = MGetReq(keysA[j], gap)
		case "del":
			r = DelReq(keysA[j], gap)
		default:
			r = MSetReq(keysA[j], "v", gap, "w")
		}
		r.Kind = "PARTIAL-" + kind
		r.Expect = []byte(world.RErrUnknownSlot)
		r.Local = true
		return r
	}
	shapes := [][]string{{"P", "FA", "FB"}, {"FA", "P", "FB"}, {"P", "P", "FA"}, {"FB", "FA", "P"}, {"P", "PING", "FA"}}
	for _, kind := range []string{"mget", "del", "mset"} {
		for _, sh := range shapes {
			for _, one := range []bool{true, false} {
				var reqs []Req
				var kinds []string
				for j, k := range sh {
					switch k {
					case "P":
						reqs = append(reqs, partial(kind, j))
						kinds = append(kinds, "PARTIAL")
					default:
						reqs = append(reqs, c01Req(k, j+5, 0))
						kinds = append(kinds, k)
					}
				}
				sc := &world.Scenario{Nodes: Tgap(), Bound: b, Horizon: 300, Family: "partial-routing/1c",
					OrderSites: []string{"core/server/server_c.go:OnCReact:Body"}}
				sc.Clients = []world.ClientSpec{ClientOf(reqs, one)}
				sc.Name = fmt.Sprintf("C01/partial/%s/%s/one=%v/d%d", kind, strings.Join(sh, ","), one, b)
				kk := [][]string{kinds}
				sc.Check = func(w *world.World) []world.Violation {
					vs := CheckStreams(w, StreamOpts{Kinds: kk, LocalIdx: func(ci, j int) bool { return isLocalKind(kk[ci][j]) || kk[ci][j] == "PARTIAL" }})
					return append(vs, BackendsWellFormed(w)...)
				}
				out = append(out, sc)
			}
		}
	}
	return out
}

// c01LocalVariants: one request per code path that answers locally (every rejection reason of every decoding branch:
// default / MGET,DEL / MSET / EVAL,EVALSHA; oversize; AUTH forms), placed between forwarded requests that are still pending
// and in front of them. The rejected request must consume exactly its own bytes and produce exactly one reply in position.
func c01LocalVariants(tier string) []*world.Scenario {
	type lv struct {
		name string
		args []string
		exp  string
	}
	big := strings.Repeat("x", 80)
	vars := []lv{
		{"eval-1arg", []string{"eval", "return 1"}, world.RErrArgs},
		{"eval-2args", []string{"EVAL", "return 1", "0"}, world.RErrArgs},
		{"evalsha-2args", []string{"evalsha", "abcdef", "0"}, world.RErrArgs},
		{"mset-odd", []string{"mset", "a", "1", "b"}, world.RErrArgs},
		{"mset-1arg", []string{"MSET", "a"}, world.RErrArgs},
		{"mget-nokey", []string{"mget"}, world.RErrArgs},
		{"del-nokey", []string{"del"}, world.RErrArgs},
		{"get-noarg", []string{"get"}, world.RErrArgs},
		{"unknown-args", []string{"flushall", "async", "x", "y"}, world.RErrUnknownCmd},
		{"unknown-long-name", []string{"zrevrangebyscorewithscores", "k", "1", "0"}, world.RErrUnknownCmd},
		{"auth-2args", []string{"auth", "user", "pw"}, ""},
		{"ping-arg", []string{"ping", "hello"}, ""},
		{"oversize-get", []string{"get", big}, world.RErrReqLarge},
		{"oversize-mget", []string{"mget", "a", big}, world.RErrReqLarge},
		{"oversize-eval", []string{"eval", big, "1", "k"}, world.RErrReqLarge},
		{"oversize-unknown", []string{"flushall", big}, ""},
	}
	b := 2
	if tier == "thorough" {
		b = 3
	}
	var out []*world.Scenario
	for _, v := range vars {
		r := Req{Kind: "LV-" + v.name, Bytes: world.Cmd(v.args...), Local: true}
		if v.exp != "" {
			r.Expect = []byte(v.exp)
		}
		shapes := [][]string{{"FA", "L", "FB"}, {"L", "PING", "FA"}}
		if tier == "thorough" {
			shapes = append(shapes, []string{"M2", "L", "L", "FA"}, []string{"L", "QUIT"})
		}
		for _, sh := range shapes {
			for _, one := range []bool{true, false} {
				var reqs []Req
				var kinds []string
				for j, k := range sh {
					if k == "L" {
						reqs = append(reqs, r)
						kinds = append(kinds, r.Kind)
					} else {
						reqs = append(reqs, c01Req(k, j+3, 0))
						kinds = append(kinds, k)
					}
				}
				sc := &world.Scenario{Nodes: T3m(), Bound: b, Horizon: 300, Family: "local-variants/1c", MaxLen: 64, ReadCap: 256, WriteCap: 256}
				sc.Clients = []world.ClientSpec{ClientOf(reqs, one)}
				sc.Name = fmt.Sprintf("C01/local-variant/%s/%s/one=%v/d%d", v.name, strings.Join(sh, ","), one, b)
				kk := [][]string{kinds}
				sc.Check = func(w *world.World) []world.Violation {
					// variants without a pinned text: exactly one reply in position (any single reply; C17 decides which one)
					vs := CheckStreams(w, StreamOpts{Kinds: kk, LocalIdx: func(ci, j int) bool {
						return isLocalKind(kk[ci][j]) || strings.HasPrefix(kk[ci][j], "LV-")
					}})
					return append(vs, BackendsWellFormed(w)...)
				}
				out = append(out, sc)
			}
		}
	}
	return out
}

func init() {
	register(&Check{
		ID: "C01", Level: "model_checking",
		Rule:      "every pipeline over the request-kind alphabet {GET@A, GET@B, MGET split A+B, DEL split A+B, PING, AUTH, unknown command, wrong arity, QUIT(last)} up to the tier's length, on 1-3 concurrent clients, whole-pipeline and per-request chunking; configuration variants (two connections per node; password + replica topology); two clients whose replies share one backend read (how many replies a read carries is enumerated), one of them leaving by QUIT; multi-key requests that can only be routed in part (one key in an unowned slot range) at every pipeline position; one locally answered request per rejection path of every decoding branch (EVAL/EVALSHA/MSET/MGET/DEL/default arity, long unknown names, oversize of every branch, AUTH/PING with extra arguments) between and in front of pending forwarded requests; batches of three replies released by one vectored write to a slow reader under every EAGAIN / short-write answer; for each, every interleaving of client reads, task runs and backend reply deliveries within the deviation bound; an execution is non-trivial when it contains >= 1 deviation from the synchronous default schedule; distinct = distinct observable outcomes (client byte streams + per-node command logs)",
		Scenarios: c01Scenarios, BudgetQuick: 90, BudgetThorough: 1200,
		Assumptions: []string{"simulated kernel (vsys) models Linux nonblocking sockets + level-triggered epoll", "stateless node model: replies are a function of the command and embed the key"},
	})
}
