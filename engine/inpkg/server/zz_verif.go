// Verification harness file overlaid into package server: resets package globals.
package server

func VerifReset() {
	authCmd = ""
	liveSlaves = nil
}
