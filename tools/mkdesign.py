#!/usr/bin/env python3
# Assembles DESIGN.md from its parts: head (sections 1-2), body (3-7), section 8 generated from seeded/*/meta.json, appendices.
import json,glob,os,sys
root='/verif'
parts=root+'/tools/design_parts'
head=open(parts+'/head.md').read()
body=open(parts+'/body.md').read()
appA=open(parts+'/appA.md').read()
app=open(parts+'/app.md').read()
rows=[]
for d in sorted(glob.glob(root+'/seeded/*/meta.json')):
    m=json.load(open(d))
    rows.append("| %s | %s | %s | %s | %s |" % (m['id'], m['breaks_property'], ", ".join(f.strip().replace('core/','') for f in m['files_changed']), m['needs_to_manifest'].replace('|','/'), ", ".join(m.get('detected_by',[])) or "—"))
own=open(parts+'/own_mutants.md').read() if os.path.exists(parts+'/own_mutants.md') else ''
e3=''
if os.path.exists(root+'/conformance/e3_report.json'):
    r=json.load(open(root+'/conformance/e3_report.json'))
    e3="Last E3 run (`conformance/e3_report.json`): %d scenarios replayed on the unmodified binary over real sockets: %d agree, %d mismatch, %d not confirmed.\n" % (r['scenarios'],r['agree'],r['mismatch'],r['not_confirmed'])
sec8 = """
---------------------------------------------------------------------------------------------------

## 8. Detection demonstrations

### 8.1 Seeded changes written by independent sub-agents

Each change was written by a fresh sub-agent that was given only the text of one property and its own
scratch worktree of the repaired tree — nothing from `/verif`. Each compiles, keeps the 35 baseline
tests passing, and comes with its own demonstration (a `go test` file driving the real code) that
fails with the change and passes without it; all of that was re-confirmed in a fresh worktree before
the change was kept (`seeded/<id>/meta.json`). The last column lists every check (quick tier) that
reports a VIOLATION with the change applied (`bin/seedrun <id> C01 … C20`, i.e. all twenty checks
against a scratch worktree with the patch; spot-confirmed with `git -C /repo apply` / `checkout`).
Checks that missed a change at first were strengthened (noted below the table); no check was loosened.

| seed | breaks | files | needs, in order to manifest | caught by (quick tier) |
|---|---|---|---|---|
""" + "\n".join(rows) + """

Two rounds were run (20 + 20 changes; seeds `Cxx` and `R2-Cxx`; the second round was told the first round's
idea for the same property and asked for a different code site and mechanism). **Every one of the 40 changes is
reported by the check of the property it breaks (quick tier)**; most are also reported by neighbouring checks.

Strengthening triggered by first-time misses (no check was loosened, none of these families fires on the
unchanged tree):

* round 1 — C01 partial-routing family (Tgap); C03 "partially routable request *behind a pending one*"; C02
  slow-reader *pipeline* (several replies crossing the ring/list boundary of the outbound buffer); C10 slow-backend
  family; C04 role-flip family (master with open connections demoted); C12 lengths that wrap 2^64 to the genuine
  value.
* round 2 — a modelling gap: the world never put two complete replies into one read; `CoalesceAll` /
  `CoalesceChoice` now do (C02, C04 handshake + first reply in one segment, C07); `SlowMultiFlush` (three replies
  released by one vectored write to a slow reader: C01, C02, C19 — C19 gained an E1 family); C05 E1 family (slot
  the running proxy *assigns* inside multi-key requests); C06 pool key with an empty `{}` tag; C07 fragment
  redirected first; C09 open-loop client that also reads slowly (EAGAIN with an empty backlog); C10 a client closed
  for invalid input in the batch in which its valid request was routed; C11 more error texts (`-ERR invalid …`,
  `-NOSCRIPT`, `-NOPERM`, `-MISCONF`, minimal `-ERR` / `-E`); C13 ASK cycles; C17 oversize requests of every
  command family (split commands, scripts); C18 admission under interleavings (request already in the socket at
  accept time); C20 replica re-parented by a topology update; memory faults inside proxy code (a write into
  read-only memory) are turned into recoverable panics so that they are reported as `crash`, not as a dead worker.

""" + own + "\n" + e3
open(root+'/DESIGN.md','w').write(head+body+sec8+appA+app)
print("DESIGN.md written,", len(open(root+'/DESIGN.md').read().splitlines()), "lines")
