package checks

import (
	"bytes"
	"fmt"
	"os"
	"path/filepath"
	"sort"
	"strings"
	"time"

	"rcproxy/core/codec"
	"rcproxy/core/zz_verif/world"
)

// C17: only supported, well-formed, size-limited requests are forwarded.

func repoRoot() string {
	if r := os.Getenv("VERIF_REPO"); r != "" {
		return r
	}
	return "/repo"
}

// docsCommands parses docs/command.md: name -> supported ("Yes" on at least one row without a restricting comment).
func docsCommands() (yes map[string]bool, all []string, err error) {
	b, err := os.ReadFile(filepath.Join(repoRoot(), "docs/command.md"))
	if err != nil {
		return nil, nil, err
	}
	yes = map[string]bool{}
	seen := map[string]bool{}
	for _, line := range strings.Split(string(b), "\n") {
		f := strings.Split(line, "|")
		if len(f) < 4 {
			continue
		}
		name := strings.ToLower(strings.TrimSpace(f[1]))
		sup := strings.TrimSpace(f[2])
		if name == "" || name == "command" || strings.HasPrefix(name, ":") || strings.Contains(name, " ") {
			if !strings.Contains(name, " ") {
				continue
			}
			name = strings.ReplaceAll(name, " ", "")
		}
		if sup != "Yes" && sup != "No" {
			continue
		}
		if !seen[name] {
			seen[name] = true
			all = append(all, name)
		}
		if sup == "Yes" {
			yes[name] = true
		}
	}
	return yes, all, nil
}

var c17Invented = []string{"foo", "gett", "ge", "sett", "mgets", "pingg", "quitt", "auth2", "", "get\x00", "g\r\nt", "delete", "flushall", "keys", "select", "info", "multi", "exec", "subscribe", "scan"}

func caseFlips(name string) []string {
	out := []string{name, strings.ToUpper(name)}
	for i := 0; i < len(name); i++ {
		b := []byte(name)
		if b[i] >= 'a' && b[i] <= 'z' {
			b[i] &^= 0x20
			out = append(out, string(b))
		}
	}
	return out
}

type c17req struct {
	raw    []byte
	name   string
	nargs  int
	expect []byte // nil: served, forwarded, reply from node model
	served bool
	local  bool
	args   []string
}

func c17Expect(name string, args []string, password string) (served bool, local bool, reply []byte) {
	sp, ok := world.SpecTable[strings.ToLower(name)]
	if !ok {
		return false, false, []byte(world.RErrUnknownCmd)
	}
	if !world.ArityOK(sp.Arity, len(args)) {
		return false, false, []byte(world.RErrArgs)
	}
	switch sp.Name {
	case "ping":
		return true, true, []byte(world.RPong)
	case "quit":
		return true, true, []byte(world.ROK)
	case "auth":
		if password == "" {
			return true, true, []byte(world.RErrAuthNoPw)
		}
		if args[0] != password {
			return true, true, []byte(world.RErrAuthBad)
		}
		return true, true, []byte(world.ROK)
	}
	return true, false, nil
}

func c17ReplyFor(name string, args []string) []byte {
	var ba [][]byte
	ba = append(ba, []byte(name))
	for _, a := range args {
		ba = append(ba, []byte(a))
	}
	switch name {
	case "mget":
		out := []byte(fmt.Sprintf("*%d\r\n", len(args)))
		for _, k := range args {
			out = append(out, world.ValueOf([]byte(k))...)
		}
		return out
	case "del":
		n := 0
		for _, k := range args {
			n += world.DelCount([]byte(k))
		}
		return []byte(fmt.Sprintf(":%d\r\n", n))
	case "eval", "evalsha":
		return world.Bulk("r:" + name + ":" + args[0])
	}
	return world.DefaultReply(name, ba)
}

func c17Batch(id int, reqs []c17req, position string) *world.Scenario {
	sc := &world.Scenario{Nodes: T3m(), Bound: 0, Family: "table", Horizon: 1 << 20, InputEnum: true, ReadCap: 4096, WriteCap: 4096}
	cs := world.ClientSpec{}
	ga, gb := GetReq(keysA[9]), GetReq(keysB[9])
	nrep := 0
	type slot struct {
		idx int // index into reqs, -1 for neighbours
	}
	var order []slot
	for i, r := range reqs {
		var data []byte
		switch position {
		case "alone":
			data = r.raw
			order = append(order, slot{i})
		case "first":
			data = append(append(append([]byte{}, r.raw...), ga.Bytes...), gb.Bytes...)
			order = append(order, slot{i}, slot{-1}, slot{-2})
		case "middle":
			data = append(append(append([]byte{}, ga.Bytes...), r.raw...), gb.Bytes...)
			order = append(order, slot{-1}, slot{i}, slot{-2})
		case "last":
			data = append(append(append([]byte{}, ga.Bytes...), gb.Bytes...), r.raw...)
			order = append(order, slot{-1}, slot{-2}, slot{i})
		}
		cs.Chunks = append(cs.Chunks, world.Chunk{Data: data, WaitReplies: nrep})
		if position == "alone" {
			nrep++
		} else {
			nrep += 3
		}
	}
	for _, s := range order {
		switch s.idx {
		case -1:
			cs.Expect = append(cs.Expect, ga.Expect)
			cs.Reqs = append(cs.Reqs, ga.Bytes)
		case -2:
			cs.Expect = append(cs.Expect, gb.Expect)
			cs.Reqs = append(cs.Reqs, gb.Bytes)
		default:
			r := reqs[s.idx]
			cs.Reqs = append(cs.Reqs, r.raw)
			if r.expect != nil {
				cs.Expect = append(cs.Expect, r.expect)
			} else {
				cs.Expect = append(cs.Expect, c17ReplyFor(strings.ToLower(r.name), r.args))
			}
		}
	}
	sc.Clients = []world.ClientSpec{cs}
	sc.Name = fmt.Sprintf("C17/table/%s/batch%d(%q/%d ..)", position, id, reqs[0].name, reqs[0].nargs)
	sc.Check = func(w *world.World) []world.Violation {
		// what reached the backends, grouped by the request it belongs to (closed loop per chunk)
		per := 1
		if position != "alone" {
			per = 3
		}
		groups := map[int][]world.CmdRec{}
		for _, rec := range w.DataCmds("") {
			groups[rec.CR/per] = append(groups[rec.CR/per], rec)
		}
		for i, r := range reqs {
			var mine []world.CmdRec
			for _, rec := range groups[i] {
				if position != "alone" && len(rec.Args) == 2 && (string(rec.Args[1]) == keysA[9] || string(rec.Args[1]) == keysB[9]) && world.Lower(rec.Args[0]) == "get" {
					continue
				}
				mine = append(mine, rec)
			}
			fw := r.served && !r.local
			if !fw && len(mine) > 0 {
				sig := "unsupported-forwarded:" + strings.ToLower(r.name)
				if _, ok := world.SpecTable[strings.ToLower(r.name)]; ok {
					sig = fmt.Sprintf("arity-mismatch:%s/%d", strings.ToLower(r.name), r.nargs)
				}
				return []world.Violation{{Sig: sig, Msg: fmt.Sprintf("request %q must be rejected, but %q was forwarded to %s", r.raw, mine[0].Raw, mine[0].Addr)}}
			}
			if fw && len(mine) == 0 {
				return []world.Violation{{Sig: "supported-rejected:" + strings.ToLower(r.name), Msg: fmt.Sprintf("request %q (supported, arity ok) reached no backend", r.raw)}}
			}
		}
		vs := CheckStreams(w, StreamOpts{})
		for i := range vs {
			if vs[i].Sig == "corrupt" || vs[i].Sig == "forwarded-swap" || strings.HasPrefix(vs[i].Sig, "local-overtake") {
				vs[i].Sig = "wrong-reply-or-neighbour-affected"
			}
		}
		return vs
	}
	return sc
}

func c17Scenarios(tier string) []*world.Scenario {
	var out []*world.Scenario
	_, all, err := docsCommands()
	if err != nil {
		panic(err)
	}
	names := append([]string{}, all...)
	names = append(names, "auth")
	names = append(names, c17Invented...)
	// near misses of every documented name: one letter appended / prepended, last letter dropped (unless that is a
	// documented name itself), and a long tail - none of them is supported
	docset := map[string]bool{"auth": true}
	for _, n := range all {
		docset[n] = true
	}
	for _, n := range all {
		for _, m := range []string{n + "x", "x" + n, n[:len(n)-1], n + "withscores_v2"} {
			if m != "" && !docset[m] {
				docset[m] = true // once
				names = append(names, m)
			}
		}
	}
	positions := []string{"alone", "middle"}
	maxArgs := 5
	if tier == "thorough" {
		positions = []string{"alone", "first", "middle", "last"}
		maxArgs = 7
	}
	for _, pos := range positions {
		var reqs []c17req
		for _, n := range names {
			variants := caseFlips(n)
			if tier != "thorough" && len(variants) > 4 {
				variants = variants[:4]
			}
			for _, v := range variants {
				for na := 0; na <= maxArgs; na++ {
					if pos != "alone" && strings.ToLower(v) == "quit" && na == 0 {
						continue // QUIT closes the connection: only judged alone
					}
					if pos != "alone" && isLocalKind(strings.ToUpper(v)) {
						continue // local replies next to forwarded ones are C01's business
					}
					args := []string{}
					for k := 0; k < na; k++ {
						args = append(args, fmt.Sprintf("k%d", k+30))
					}
					r := c17req{raw: world.Cmd(append([]string{v}, args...)...), name: v, nargs: na, args: args}
					r.served, r.local, r.expect = c17Expect(v, args, "")
					if pos != "alone" && !r.served {
						continue // rejected requests are answered locally: order next to forwarded ones is C01's business
					}
					if strings.ToLower(v) == "quit" && na == 0 {
						continue
					}
					reqs = append(reqs, r)
				}
			}
		}
		const batch = 80
		for i := 0; i < len(reqs); i += batch {
			j := i + batch
			if j > len(reqs) {
				j = len(reqs)
			}
			out = append(out, c17Batch(i/batch, reqs[i:j], pos))
		}
	}
	// argument counts far from the legal ones: around the powers of two where a narrow counter wraps (the legal count
	// plus 256 / 65536 included), for every documented name and AUTH
	{
		var reqs []c17req
		counts := []int{8, 9, 15, 16, 17, 31, 32, 33, 63, 64, 65, 127, 128, 129, 254, 255, 256, 257, 258, 259, 260, 261, 511, 512, 513, 514, 1023, 1025}
		if tier != "thorough" {
			counts = []int{16, 17, 127, 128, 129, 255, 256, 257, 258, 259, 260, 261, 513, 514}
		}
		for _, n := range append(append([]string{}, all...), "auth") {
			if n == "quit" {
				continue
			}
			for _, na := range counts {
				args := make([]string, na)
				for k := range args {
					args[k] = fmt.Sprintf("k%d", k%50+30)
				}
				r := c17req{raw: world.Cmd(append([]string{n}, args...)...), name: n, nargs: na, args: args}
				r.served, r.local, r.expect = c17Expect(n, args, "")
				reqs = append(reqs, r)
			}
		}
		for _, n := range []string{"get", "set", "ping", "setnx", "linsert", "expire"} {
			sp := world.SpecTable[n]
			lc := argCounts(sp.Arity)
			if len(lc) == 0 {
				lc = []int{0}
			}
			for _, legal := range lc[:1] {
				na := legal + 65536
				args := make([]string, na)
				for k := range args {
					args[k] = "a"
				}
				r := c17req{raw: world.Cmd(append([]string{n}, args...)...), name: n, nargs: na, args: args}
				r.served, r.local, r.expect = c17Expect(n, args, "")
				reqs = append(reqs, r)
			}
		}
		const batch = 40
		for i := 0; i < len(reqs); i += batch {
			j := i + batch
			if j > len(reqs) {
				j = len(reqs)
			}
			sc := c17Batch(1000+i/batch, reqs[i:j], "alone")
			sc.Family = "arity-far"
			sc.MaxLen = 4 << 20
			out = append(out, sc)
		}
	}
	// QUIT alone, AUTH with a configured password
	for _, v := range caseFlips("quit") {
		r := QuitReq()
		r.Bytes = world.Cmd(v)
		sc := &world.Scenario{Nodes: T3m(), Bound: 0, Family: "table", Horizon: 200, InputEnum: true, Name: "C17/quit/" + v}
		sc.Clients = []world.ClientSpec{ClientOf([]Req{r}, true)}
		sc.Check = func(w *world.World) []world.Violation { return CheckStreams(w, StreamOpts{}) }
		out = append(out, sc)
	}
	for _, pw := range []string{"secret", "wrong", ""} {
		r := AuthReq(pw, "secret")
		sc := &world.Scenario{Nodes: T3m(), Bound: 0, Family: "table", Horizon: 200, InputEnum: true, Password: "secret", Name: "C17/auth-configured/" + pw}
		sc.Clients = []world.ClientSpec{ClientOf([]Req{r, PingReq()}, false)}
		sc.Clients[0].Chunks[1].WaitReplies = 1
		sc.Check = func(w *world.World) []world.Violation { return CheckStreams(w, StreamOpts{}) }
		out = append(out, sc)
	}
	// requests the proxy answers itself do not depend on the slot table: AUTH (whose argument is not a key) and PING on a
	// topology with an unowned range, with and without a configured password, for 40 arguments spread over all slots
	for _, pw := range []string{"", "secret"} {
		var reqs []Req
		for i := 0; i < 40; i++ {
			arg := fmt.Sprintf("pw%d", i)
			if i == 7 {
				arg = "secret"
			}
			reqs = append(reqs, AuthReq(arg, pw))
			if i%10 == 9 {
				reqs = append(reqs, PingReq())
			}
		}
		cs := ClientOf(reqs, false)
		for j := range cs.Chunks {
			cs.Chunks[j].WaitReplies = j
		}
		sc := &world.Scenario{Nodes: Tgap(), Bound: 0, Family: "local-on-gap-topology", Horizon: 2000, InputEnum: true, Password: pw,
			Name: fmt.Sprintf("C17/auth-on-topology-with-unowned-range/pw=%v", pw != "")}
		sc.Clients = []world.ClientSpec{cs}
		sc.Check = func(w *world.World) []world.Violation {
			vs := CheckStreams(w, StreamOpts{})
			for i := range vs {
				vs[i].Sig = "supported-rejected:auth"
			}
			return vs
		}
		out = append(out, sc)
	}
	// sizes around the limit L = 64 (read buffer 4 x L so that the limit, not the buffer, decides)
	const L = 64
	for _, total := range []int{L - 1, L, L + 1, L + 40} {
		// request of exactly `total` encoded bytes: *3 $3 set $2 kX $n <val>
		key := keysA[0]
		base := len(world.Cmd("set", key, ""))
		vl := total - base
		for len(world.Cmd("set", key, strings.Repeat("v", vl))) > total {
			vl--
		}
		for len(world.Cmd("set", key, strings.Repeat("v", vl))) < total {
			vl++
		}
		raw := world.Cmd("set", key, strings.Repeat("v", vl))
		exp := []byte(world.ROK)
		if len(raw) > L {
			exp = []byte(world.RErrReqLarge)
		}
		small := SetReq(keysB[0], "s")
		for _, shape := range []string{"alone", "after-small", "before-small", "split"} {
			var reqs []Req
			big := Req{Kind: "SET", Bytes: raw, Expect: exp, Local: len(raw) > L}
			switch shape {
			case "alone", "split":
				reqs = []Req{big}
			case "after-small":
				reqs = []Req{small, big}
			case "before-small":
				reqs = []Req{big, small}
			}
			cs := ClientOf(reqs, true)
			if shape == "split" {
				cs.Chunks = SplitAt(raw, 9, len(raw)-3)
			}
			if len(raw) > L && shape != "alone" && shape != "split" {
				continue // a rejected (locally answered) request next to a forwarded one: C01's business
			}
			sc := &world.Scenario{Nodes: T3m(), Bound: 0, Family: "size", Horizon: 300, InputEnum: true, MaxLen: L, ReadCap: 4 * L, WriteCap: 4 * L,
				Name: fmt.Sprintf("C17/size/req%d/%s", len(raw), shape)}
			sc.Clients = []world.ClientSpec{cs}
			over := len(raw) > L
			sc.Check = func(w *world.World) []world.Violation {
				if over {
					for _, rec := range w.DataCmds("") {
						if bytes.Equal(rec.Raw, raw) {
							return []world.Violation{{Sig: "oversize-request-forwarded", Msg: fmt.Sprintf("request of %d bytes (limit %d) was forwarded", len(raw), L)}}
						}
					}
				}
				vs := CheckStreams(w, StreamOpts{})
				for i := range vs {
					rs, _, _ := world.SplitReplies(w.Clients[0].Received)
					for _, r := range rs {
						if bytes.Equal(r, []byte(world.RErrReqLarge)) && !over {
							vs[i].Sig = "size-limit-uses-buffered-total"
						}
					}
				}
				return vs
			}
			out = append(out, sc)
		}
	}
	// production-size limit (6 MiB) and arguments around 1 MiB (the array-count bound, which is not a bound on arguments)
	// and around the limit itself: served up to the limit, the too-large error above it, the connection stays usable
	{
		const lim = 6 << 20
		sizes := []int{1<<20 - 1, 1 << 20, 1<<20 + 1, 3 << 19, lim - 100, lim + 1, 13 << 19}
		if tier != "thorough" {
			sizes = []int{1 << 20, 1<<20 + 1, 3 << 19, lim + 1}
		}
		for _, kind := range []string{"set", "mset", "eval"} {
			for _, sz := range sizes {
				if tier != "thorough" && kind != "set" && sz != 1<<20+1 {
					continue
				}
				val := strings.Repeat("V", sz)
				var raw []byte
				switch kind {
				case "set":
					raw = world.Cmd("set", keysA[0], val)
				case "mset":
					raw = world.Cmd("mset", keysA[0], val, keysB[0], "w")
				case "eval":
					raw = world.Cmd("eval", "return 1", "1", keysA[0], val)
				}
				over := len(raw) > lim
				r := Req{Kind: kind, Bytes: raw}
				if over {
					r.Expect, r.Local = []byte(world.RErrReqLarge), true
				}
				follow := GetReq(keysC[1])
				cs := ClientOf([]Req{r, follow}, false)
				cs.Chunks[1].WaitReplies = 1
				sc := &world.Scenario{Nodes: T3m(), Bound: 0, Family: "size-production", Horizon: 5000, InputEnum: true, MaxLen: lim, ReadCap: 65536, WriteCap: 65536,
					Name: fmt.Sprintf("C17/size-production/%s/arg%d", kind, sz)}
				sc.Clients = []world.ClientSpec{cs}
				n := len(raw)
				sc.Check = func(w *world.World) []world.Violation {
					nfwd := 0
					for _, rec := range w.DataCmds("") {
						if len(rec.Raw) > 1000 {
							nfwd++
						}
					}
					if over && nfwd > 0 {
						return []world.Violation{{Sig: "oversize-request-forwarded", Msg: fmt.Sprintf("request of %d bytes (limit %d) was forwarded", n, lim)}}
					}
					vs := CheckStreams(w, StreamOpts{})
					for i := range vs {
						if len(vs[i].Msg) > 300 {
							vs[i].Msg = vs[i].Msg[:300] + "..."
						}
						if !over {
							vs[i].Sig = "supported-rejected:" + kind
							vs[i].Msg = fmt.Sprintf("a well-formed %s request of %d bytes (limit %d, largest argument %d bytes) was not served: ", kind, n, lim, sz) + vs[i].Msg
						}
					}
					if len(vs) == 0 && !over && nfwd == 0 {
						vs = append(vs, world.Violation{Sig: "supported-rejected:" + kind, Msg: fmt.Sprintf("request of %d bytes was not forwarded", n)})
					}
					return vs
				}
				out = append(out, sc)
			}
		}
	}
	// every command family around the limit: single-key read / write, split commands, scripts
	{
		pad := func(base []string, fill int, total int) []byte {
			// grow the argument at index fill until the encoded request has exactly `total` bytes
			for n := 0; n < 4*L; n++ {
				args := append([]string{}, base...)
				args[fill] = base[fill] + strings.Repeat("x", n)
				if r := world.Cmd(args...); len(r) == total {
					return r
				} else if len(r) > total {
					return nil
				}
			}
			return nil
		}
		fams := []struct {
			name string
			base []string
			fill int
		}{
			{"get", []string{"get", keysA[0]}, 1},
			{"hset", []string{"hset", keysA[0], "f", "v"}, 3},
			{"mget", []string{"mget", keysA[0], keysB[0]}, 2},
			{"del", []string{"del", keysA[0], keysB[0]}, 1},
			{"mset", []string{"mset", keysA[0], "v", keysB[0], "w"}, 4},
			{"mget-1slot", []string{"mget", keysA[0]}, 1},
			{"eval", []string{"eval", "return 1", "1", keysA[0]}, 1},
			{"evalsha", []string{"evalsha", "abcdef", "1", keysA[0], "a"}, 4},
		}
		for _, f := range fams {
			for _, total := range []int{L, L + 1, 3 * L} {
				raw := pad(f.base, f.fill, total)
				if raw == nil {
					continue
				}
				over := len(raw) > L
				var reqs []Req
				if over {
					reqs = []Req{{Kind: f.name, Bytes: raw, Expect: []byte(world.RErrReqLarge), Local: true}}
				} else {
					reqs = []Req{{Kind: f.name, Bytes: raw, Expect: nil}}
				}
				follow := GetReq(keysC[1])
				cs := ClientOf(append(reqs, follow), false)
				cs.Chunks[1].WaitReplies = 1
				sc := &world.Scenario{Nodes: T3m(), Bound: 0, Family: "size", Horizon: 300, InputEnum: true, MaxLen: L, ReadCap: 8 * L, WriteCap: 8 * L,
					Name: fmt.Sprintf("C17/size/%s/req%d", f.name, len(raw))}
				sc.Clients = []world.ClientSpec{cs}
				fk := keysC[1]
				sc.Check = func(w *world.World) []world.Violation {
					n := 0
					for _, rec := range w.DataCmds("") {
						if !hasKey(rec.Args, fk) {
							n++
						}
					}
					if over && n > 0 {
						return []world.Violation{{Sig: "oversize-request-forwarded", Msg: fmt.Sprintf("request %q of %d bytes (limit %d) was forwarded (%d commands reached backends)", clipq(raw), len(raw), L, n)}}
					}
					if !over && n == 0 {
						return []world.Violation{{Sig: "size-limit-off-by-one", Msg: fmt.Sprintf("request of exactly %d bytes (limit %d) reached no backend", len(raw), L)}}
					}
					return CheckStreams(w, StreamOpts{})
				}
				out = append(out, sc)
			}
		}
	}
	// a pipeline of small requests whose total exceeds L
	{
		var reqs []Req
		for i := 0; i < 4; i++ {
			reqs = append(reqs, SetReq(keysA[i], "0123456789"))
		}
		sc := &world.Scenario{Nodes: T3m(), Bound: 0, Family: "size", Horizon: 300, InputEnum: true, MaxLen: L, ReadCap: 4 * L, WriteCap: 4 * L, Name: "C17/size/4-small-in-one-chunk"}
		sc.Clients = []world.ClientSpec{ClientOf(reqs, true)}
		sc.Check = func(w *world.World) []world.Violation {
			vs := CheckStreams(w, StreamOpts{})
			for i := range vs {
				vs[i].Sig = "size-limit-uses-buffered-total"
			}
			return vs
		}
		out = append(out, sc)
	}
	// replies around the limit: single-key and merged MGET
	for _, rl := range []int{L - 1, L, L + 1} {
		pay := rl - len("$00\r\n\r\n")
		rep := world.Bulk(strings.Repeat("r", pay))
		exp := rep
		if len(rep) > L {
			exp = []byte(world.RErrRspLarge)
		}
		g := GetReq(keysA[0])
		g.Expect = exp
		sc := &world.Scenario{Nodes: T3m(), Bound: 0, Family: "size", Horizon: 300, InputEnum: true, MaxLen: L, ReadCap: 4 * L, WriteCap: 4 * L, Name: fmt.Sprintf("C17/size/reply%d", len(rep))}
		follow := GetReq(keysB[1])
		cs := ClientOf([]Req{g, follow}, false)
		cs.Chunks[1].WaitReplies = 1
		sc.Clients = []world.ClientSpec{cs}
		ka := keysA[0]
		sc.Reply = func(w *world.World, bc *world.BConn, args [][]byte) ([]byte, int) {
			if hasKey(args, ka) {
				return rep, 0
			}
			return nil, 0
		}
		sc.Check = func(w *world.World) []world.Violation {
			vs := CheckStreams(w, StreamOpts{})
			for i := range vs {
				vs[i].Sig = "oversize-reply-passed-or-limit-off-by-one"
			}
			return vs
		}
		out = append(out, sc)
		// merged MGET whose assembled reply crosses the limit while each fragment reply is below it
		m := MGetReq(keysA[0], keysB[0])
		half := (rl - len("*2\r\n") - 2*len("$00\r\n\r\n")) / 2
		va, vb := strings.Repeat("a", half), strings.Repeat("b", rl-len("*2\r\n")-2*len("$00\r\n\r\n")-half)
		merged := append([]byte("*2\r\n"), append(world.Bulk(va), world.Bulk(vb)...)...)
		m.Expect = merged
		if len(merged) > L {
			m.Expect = []byte(world.RErrRspLarge)
		}
		sc2 := &world.Scenario{Nodes: T3m(), Bound: 0, Family: "size", Horizon: 300, InputEnum: true, MaxLen: L, ReadCap: 4 * L, WriteCap: 4 * L, Name: fmt.Sprintf("C17/size/merged-mget-reply%d", len(merged))}
		cs2 := ClientOf([]Req{m, follow}, false)
		cs2.Chunks[1].WaitReplies = 1
		sc2.Clients = []world.ClientSpec{cs2}
		kb := keysB[0]
		sc2.Reply = func(w *world.World, bc *world.BConn, args [][]byte) ([]byte, int) {
			if hasKey(args, ka) {
				return append([]byte("*1\r\n"), world.Bulk(va)...), 0
			}
			if hasKey(args, kb) {
				return append([]byte("*1\r\n"), world.Bulk(vb)...), 0
			}
			return nil, 0
		}
		sc2.Check = sc.Check
		out = append(out, sc2)
	}
	// every reply SHAPE around the limit (bulk, error line, status line, integer, array), as the reply to a single-key
	// request and as the reply to ONE fragment of a split MGET / DEL / MSET (whose other fragment is answered normally):
	// above the limit the client gets the too-large error, up to the limit the reply (or, for a fragment error, an error)
	for _, shape := range []string{"bulk", "error", "status", "array"} {
		for _, rl := range []int{L - 1, L, L + 1, 3 * L} {
			var rep []byte
			switch shape {
			case "bulk":
				rep = world.Bulk(strings.Repeat("r", rl-len("$00\r\n\r\n")))
				if rl >= 100 {
					rep = world.Bulk(strings.Repeat("r", rl-len("$000\r\n\r\n")))
				}
			case "error":
				rep = []byte("-ERR " + strings.Repeat("e", rl-7) + "\r\n")
			case "status":
				rep = []byte("+" + strings.Repeat("s", rl-3) + "\r\n")
			case "array":
				rep = append([]byte("*1\r\n"), world.Bulk(strings.Repeat("a", rl-len("*1\r\n$00\r\n\r\n")))...)
				if rl >= 100 {
					rep = append([]byte("*1\r\n"), world.Bulk(strings.Repeat("a", rl-len("*1\r\n$000\r\n\r\n")))...)
				}
			}
			over := len(rep) > L
			for _, kind := range []string{"get", "mget", "del", "mset"} {
				if kind != "get" && shape != "error" && !(kind == "mget" && shape == "array") {
					continue // a fragment of DEL / MSET is answered with an integer / status; only errors come in every length
				}
				var r Req
				ka, kb := keysA[0], keysB[0]
				switch kind {
				case "get":
					r = GetReq(ka)
				case "mget":
					r = MGetReq(ka, kb)
				case "del":
					r = DelReq(ka, kb)
				case "mset":
					r = MSetReq(ka, "1", kb, "2")
				}
				r.Expect = rep
				anyErr := false
				if over {
					r.Expect = []byte(world.RErrRspLarge)
				} else if kind != "get" {
					if shape == "error" {
						anyErr = true // a fragment error fails the request with an error
					} else {
						// mget fragment array within the limit: merged with the other fragment's element
						r.Expect = append([]byte("*2\r\n"), append(rep[len("*1\r\n"):], world.ValueOf([]byte(kb))...)...)
						if len(r.Expect) > L {
							r.Expect = []byte(world.RErrRspLarge)
						}
					}
				}
				follow := GetReq(keysC[1])
				cs := ClientOf([]Req{r, follow}, false)
				cs.Chunks[1].WaitReplies = 1
				sc := &world.Scenario{Nodes: T3m(), Bound: 1, Family: "reply-shapes-at-limit", Horizon: 300, MaxLen: L, ReadCap: 4 * L, WriteCap: 4 * L,
					Name: fmt.Sprintf("C17/reply-shape/%s/%s/reply%d", kind, shape, len(rep))}
				sc.Clients = []world.ClientSpec{cs}
				sc.Reply = func(w *world.World, bc *world.BConn, args [][]byte) ([]byte, int) {
					if hasKey(args, ka) && bc.Addr == AddrA {
						return rep, 0
					}
					return nil, 0
				}
				ae := anyErr
				nrep := len(rep)
				sc.Check = func(w *world.World) []world.Violation {
					vs := CheckStreams(w, StreamOpts{AnyError: func(ci, j int) bool { return ae && j == 0 }})
					if ae && len(vs) == 0 {
						// within the limit: any error, but not one LONGER than the limit
						rs, _, _ := world.SplitReplies(w.Clients[0].Received)
						if len(rs) > 0 && len(rs[0]) > L {
							vs = append(vs, world.Violation{Sig: "oversize-reply-passed-or-limit-off-by-one", Msg: fmt.Sprintf("a reply of %d bytes (limit %d) was delivered", len(rs[0]), L)})
						}
					}
					for i := range vs {
						vs[i].Sig = "oversize-reply-passed-or-limit-off-by-one"
						vs[i].Msg = fmt.Sprintf("backend reply of %d bytes (limit %d): ", nrep, L) + vs[i].Msg
					}
					return vs
				}
				out = append(out, sc)
			}
		}
	}
	out = append(out, c17BehindPending(tier)...)
	// round 11: the limit as CONFIGURED, through the real core.Run (option defaulting included): small limits (the shipped
	// configuration uses 200), limits around 1024, not configured
	lims := []int{40, 64, 200, 1000, 1023, 1024, 1025, 5000, 0}
	if tier != "thorough" {
		lims = []int{64, 200, 1023, 1024, 5000}
	}
	for _, l := range lims {
		out = append(out, ConfiguredLimit("C17", l, 0))
	}
	return out
}

// c17BehindPending: a rejected request pipelined BEHIND a forwarded request that is still pending (its error reply is
// queued, not written at once) and in front of further requests; afterwards three more requests reuse the recycled
// request objects and are completed by short replies. "The following requests on the connection are unaffected."
func c17BehindPending(tier string) []*world.Scenario {
	big := strings.Repeat("x", 80)
	rej := []struct {
		name string
		args []string
		exp  string
	}{
		{"unknown", []string{"flushall"}, world.RErrUnknownCmd},
		{"unknown-with-args", []string{"keys", "*"}, world.RErrUnknownCmd},
		{"arity-get", []string{"get", "a", "b"}, world.RErrArgs},
		{"arity-eval", []string{"eval", "return 1", "0"}, world.RErrArgs},
		{"arity-mset", []string{"mset", "a", "1", "b"}, world.RErrArgs},
		{"oversize-set", []string{"set", "a", big}, world.RErrReqLarge},
		{"oversize-mget", []string{"mget", "a", big}, world.RErrReqLarge},
	}
	b := 1
	if tier == "thorough" {
		b = 3
	}
	var out []*world.Scenario
	for _, rj := range rej {
		for _, head := range []string{"get", "mget"} {
			var h Req
			if head == "get" {
				h = GetReq(keysA[0])
			} else {
				h = MGetReq(keysA[0], keysB[0])
			}
			r := Req{Kind: "REJ", Bytes: world.Cmd(rj.args...), Expect: []byte(rj.exp), Local: true}
			reqs := []Req{h, r, GetReq(keysB[1]), GetReq(keysC[1]), GetReq(keysA[2]), GetReq(keysB[2])}
			cs := ClientOf(reqs, false)
			var first []byte
			for _, q := range reqs[:3] {
				first = append(first, q.Bytes...)
			}
			cs.Chunks = []world.Chunk{{Data: first}, {Data: reqs[3].Bytes, WaitReplies: 3}, {Data: reqs[4].Bytes, WaitReplies: 3}, {Data: reqs[5].Bytes, WaitReplies: 3}}
			sc := &world.Scenario{Nodes: T3m(), Bound: b, Family: "rejected-behind-pending", Horizon: 300, MaxLen: 64, ReadCap: 256, WriteCap: 256,
				Clients: []world.ClientSpec{cs}, Name: fmt.Sprintf("C17/behind-pending/%s/head=%s/d%d", rj.name, head, b)}
			rejName := strings.ToLower(rj.args[0])
			sc.Check = func(w *world.World) []world.Violation {
				vs := CheckStreams(w, StreamOpts{})
				for i := range vs {
					vs[i].Sig = "wrong-reply-or-neighbour-affected"
				}
				for _, rec := range w.DataCmds("") {
					if world.Lower(rec.Args[0]) == rejName && (len(rec.Args) < 2 || string(rec.Args[1]) == "a" || string(rec.Args[1]) == "*" || string(rec.Args[1]) == "return 1") {
						vs = append(vs, world.Violation{Sig: "unsupported-forwarded:" + rejName, Msg: fmt.Sprintf("the rejected request reached %s: %q", rec.Addr, rec.Raw)})
					}
				}
				return vs
			}
			out = append(out, sc)
		}
	}
	return out
}

// c17Tables: docs <-> spec <-> code tables, both directions (runs once, shard 0).
func c17Tables(res *Result) {
	yes, all, err := docsCommands()
	if err != nil {
		res.HarnessErr = "cannot read docs/command.md: " + err.Error()
		return
	}
	res.Notes = append(res.Notes, fmt.Sprintf("docs/command.md: %d command names, %d supported", len(all), len(yes)))
	var names []string
	for n := range world.SpecTable {
		names = append(names, n)
	}
	sort.Strings(names)
	for _, n := range names {
		if n == "auth" {
			continue
		}
		if !yes[n] {
			addFound(res, "tables", "docs-table-disagree:"+n, fmt.Sprintf("the verification spec lists %q as supported but docs/command.md does not", n), n)
		}
	}
	for n := range yes {
		if _, ok := world.SpecTable[n]; !ok {
			addFound(res, "tables", "docs-table-disagree:"+n, fmt.Sprintf("docs/command.md lists %q as supported but the verification spec does not", n), n)
		}
	}
	// the code's lookup table must name exactly the documented supported set (+ AUTH)
	for n := range codec.CommandStr2Type {
		if _, ok := world.SpecTable[n]; !ok {
			addFound(res, "tables", "docs-table-disagree:"+n, fmt.Sprintf("the proxy's command table accepts %q, which is not in the documented supported set", n), n)
		}
	}
	for _, n := range names {
		if _, ok := codec.CommandStr2Type[n]; !ok {
			addFound(res, "tables", "docs-table-disagree:"+n, fmt.Sprintf("documented command %q is missing from the proxy's command table", n), n)
		}
	}
	res.Execs += int64(len(names) + len(yes) + len(codec.CommandStr2Type))
}

func init() {
	register(&Check{ID: "C17", Level: "model_checking",
		Rule:      "every command name of docs/command.md (supported and unsupported rows, ~230) + AUTH + 20 invented names x {lower, UPPER, every single-letter case flip (quick: first two)} x argument counts 0..5 (thorough 0..7) x position {alone, middle of a 3-request pipeline whose other members are valid GETs; thorough also first, last}, as closed-loop batches; QUIT and AUTH (with a configured password) separately; request sizes L-1, L, L+1, L+40 for a limit L=64 alone / split in three chunks / next to a small request, requests of exactly L, L+1 and 3L bytes for every command family (single-key read and write, split MGET/DEL/MSET, single-slot MGET, EVAL, EVALSHA), four small requests in one chunk whose total exceeds L; single-key and merged-MGET replies of size L-1, L, L+1; docs <-> hand-written spec <-> code tables compared in both directions; oracle: served iff (name in the documented set, case-insensitively) and (arity rule) and (own size <= L), otherwise exactly the corresponding error and NO backend receives anything for it, neighbours unaffected; distinct = observable outcomes; plus every rejection class (unknown name, arity of the default/EVAL/MSET branch, oversize of the default/MGET branch) pipelined BEHIND a pending forwarded request and in front of further ones, followed by three requests that reuse the recycled request objects, under every interleaving within the bound; near misses of every documented name (one letter appended / prepended / dropped, a long suffix) are unsupported",
		Scenarios: c17Scenarios, BudgetQuick: 100, BudgetThorough: 1500,
		Seq: func(tier string, shard, n int, deadline time.Time, res *Result) {
			if shard == 0 {
				c17Tables(res)
			}
		},
		Assumptions: []string{"arity classes are pinned from the proxy's own table (no independent arity documentation exists in the repository); the supported set is taken from docs/command.md", "rejected (locally answered) requests are judged alone: their ordering next to forwarded requests is property C01"}})
}
