// Verification harness file overlaid into package authip.
package authip

import "github.com/cornelk/hashmap"

// VerifReset empties the live whitelist (a fresh process).
func VerifReset() {
	IpMap.enable = false
	IpMap.HashMap = hashmap.HashMap{}
}

// VerifReload runs the real parseAuthIp exactly as the watcher does on a change event.
func VerifReload(dir, file string) error {
	a := &AuthIp{path: dir, name: dir + "/" + file}
	return a.parseAuthIp()
}

// VerifSet sets the live whitelist directly (E1 scenarios that are not about reload).
func VerifSet(enable bool, ips ...string) {
	VerifReset()
	IpMap.enable = enable
	for _, ip := range ips {
		IpMap.Insert(ip, struct{}{})
	}
}
