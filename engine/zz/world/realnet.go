package world

// E3 — real-socket replayer. The UNMODIFIED proxy binary (plain `go build` of the repository, no overlay)
// is started against fake Redis nodes that are real TCP servers running the same node model, and real
// TCP clients replay the default schedule of a scenario. The observable outcome (client byte streams,
// per-node command logs) must equal what the simulated kernel + world produce for the same scenario.
// E3 never decides a property: a mismatch is reported as a conformance warning about the environment
// model, a timeout as "not confirmed".

import (
	"bufio"
	"bytes"
	"fmt"
	"net"
	"os"
	"os/exec"
	"path/filepath"
	"sort"
	"strings"
	"sync"
	"time"
)

type RealNode struct {
	Sim  string // simulated address (10.0.0.1:7000)
	Real string // 127.0.0.1:port
	ln   net.Listener
}

type RealCluster struct {
	mu      sync.Mutex
	nodes   []*RealNode
	bySim   map[string]*RealNode
	sc      *Scenario // scenario currently replayed (reply hooks)
	w       *World    // shell world handed to reply hooks / KV
	cmds    []CmdRec
	connSeq int
	proxy   *exec.Cmd
	Addr    string
	dir     string
	nodesSp []NodeSpec
}

func freePort() (int, error) {
	l, err := net.Listen("tcp4", "127.0.0.1:0")
	if err != nil {
		return 0, err
	}
	defer l.Close()
	return l.Addr().(*net.TCPAddr).Port, nil
}

// GroupKey: scenarios with the same key can share one proxy instance.
func (sc *Scenario) GroupKey() string {
	return fmt.Sprintf("%s|pw=%s|max=%d|to=%d|conns=%d|ds=%v", NodesText(sc.Nodes), sc.Password, sc.MaxLen, sc.TimeoutMs, sc.ServerConns, sc.DisableSlave)
}

// E3Eligible: only scenarios whose default schedule needs no fault, no virtual clock and no write oracle.
func (sc *Scenario) E3Eligible() bool {
	if len(sc.Faults) > 0 || len(sc.Ticks) > 0 || sc.WriteOracle || sc.RefreshLoop || sc.AfterBoot != nil || len(sc.RefuseDial) > 0 || sc.Whitelist != nil || sc.HandshakeCuts != nil {
		return false
	}
	// session-4 world features that the real-socket replayer does not model
	if sc.RealBoot || sc.NoProbeDrain || sc.BusyTicks || sc.ServerConns > 1 || sc.SlowBackends || sc.Info != nil || sc.ProbePiece > 0 || sc.SlowlogMs > 0 || sc.DebugLog {
		return false
	}
	for _, n := range sc.Nodes {
		if len(n.Markers) > 0 {
			return false
		}
	}
	for _, c := range sc.Clients {
		if c.ConnectGate != nil || c.Flood || c.Slow {
			return false
		}
		for _, ch := range c.Chunks {
			if ch.Gate != nil {
				return false
			}
		}
	}
	if !sc.DisableSlave {
		// with two or more replicas the real binary draws the read replica at random
		cnt := map[string]int{}
		for _, n := range sc.Nodes {
			if n.Master != "" {
				cnt[n.Master]++
				if cnt[n.Master] > 1 {
					return false
				}
			}
		}
	}
	for _, c := range sc.Clients {
		if c.CloseAfter > 0 {
			return false
		}
		for _, ch := range c.Chunks {
			if ch.WaitTicks > 0 {
				return false
			}
		}
	}
	return true
}

// tr rewrites simulated node addresses inside a reply into the real ones (MOVED/ASK targets, CLUSTER NODES text);
// a top-level bulk string is re-framed because its length changes.
func (rc *RealCluster) tr(b []byte) []byte {
	has := false
	for _, n := range rc.nodes {
		if bytes.Contains(b, []byte(n.Sim)) {
			has = true
		}
	}
	if !has {
		return b
	}
	if len(b) > 0 && b[0] == '$' {
		if i := bytes.Index(b, []byte("\r\n")); i > 0 && len(b) >= i+4 {
			payload := b[i+2 : len(b)-2]
			for _, n := range rc.nodes {
				payload = bytes.ReplaceAll(payload, []byte(n.Sim), []byte(n.Real))
			}
			return Bulk(string(payload))
		}
	}
	for _, n := range rc.nodes {
		b = bytes.ReplaceAll(b, []byte(n.Sim), []byte(n.Real))
	}
	return b
}

// StartReal starts fake nodes for the scenario's topology and the real proxy binary in front of them.
func StartReal(sc *Scenario, proxyBin string) (*RealCluster, error) {
	rc := &RealCluster{bySim: map[string]*RealNode{}, nodesSp: sc.Nodes}
	dir, err := os.MkdirTemp("", "verif-e3-")
	if err != nil {
		return nil, err
	}
	rc.dir = dir
	for i := range sc.Nodes {
		ln, err := net.Listen("tcp4", "127.0.0.1:0")
		if err != nil {
			rc.Stop()
			return nil, err
		}
		n := &RealNode{Sim: sc.Nodes[i].Addr, Real: ln.Addr().String(), ln: ln}
		rc.nodes = append(rc.nodes, n)
		rc.bySim[n.Sim] = n
		go rc.serve(n, &sc.Nodes[i])
	}
	port, err := freePort()
	if err != nil {
		rc.Stop()
		return nil, err
	}
	var servers []string
	for i, n := range rc.nodes {
		if sc.Nodes[i].Master == "" {
			servers = append(servers, n.Real)
		}
	}
	ml := sc.MaxLen
	if ml == 0 {
		ml = 1 << 20
	}
	conns := sc.ServerConns
	if conns == 0 {
		conns = 1
	}
	conf := fmt.Sprintf("port: %d\nweb_port: 0\nlog_path: %s\nlog_level: ERROR\nlog_expire_day: 1\nredis:\n  servers: %s\n  password: %s\n  preconnect: false\n  msg_max_length_limit: %d\n  slowlog_slower_than: 0\n  timeout: %d\n  conn_timeout: 500\n  server_retry_timeout: 500\n  disable_slave: %v\n  server_connections: %d\n",
		port, filepath.Join(dir, "log"), strings.Join(servers, ","), sc.Password, ml, sc.TimeoutMs, sc.DisableSlave, conns)
	os.WriteFile(filepath.Join(dir, "rc.yaml"), []byte(conf), 0o644)
	os.WriteFile(filepath.Join(dir, "authip.yaml"), []byte("enable: false\nip_white_list:\n"), 0o644)
	cmd := exec.Command(proxyBin, "-p", dir, "-c", "rc.yaml", "-a", "authip.yaml")
	cmd.Dir = dir
	out, _ := os.Create(filepath.Join(dir, "stdout.txt"))
	cmd.Stdout, cmd.Stderr = out, out
	if err := cmd.Start(); err != nil {
		rc.Stop()
		return nil, err
	}
	rc.proxy = cmd
	rc.Addr = fmt.Sprintf("127.0.0.1:%d", port)
	rc.sc = sc
	rc.w = &World{Sc: sc, KV: map[string]map[string]string{}}
	// readiness: the first topology is adopted one ticker round after the first probe reply
	deadline := time.Now().Add(8 * time.Second)
	for time.Now().Before(deadline) {
		c, err := net.DialTimeout("tcp4", rc.Addr, 200*time.Millisecond)
		if err == nil {
			c.SetDeadline(time.Now().Add(500 * time.Millisecond))
			c.Write(Cmd("get", "__ready__"))
			buf := make([]byte, 256)
			n, _ := c.Read(buf)
			c.Close()
			if n > 0 && !bytes.HasPrefix(buf[:n], []byte("-ERR unknown")) {
				return rc, nil // routed to a node: the first topology has been adopted
			}
		}
		time.Sleep(100 * time.Millisecond)
	}
	logb, _ := os.ReadFile(filepath.Join(dir, "log", "rcproxy.log.wf"))
	outb, _ := os.ReadFile(filepath.Join(dir, "stdout.txt"))
	rc.mu.Lock()
	ncmd := len(rc.cmds)
	rc.mu.Unlock()
	rc.Stop()
	return nil, fmt.Errorf("real proxy did not become ready within 8 s; node commands seen %d; log tail: %s | stdout: %s", ncmd, clip(logb[max0(len(logb)-600):], 600), clip(outb[max0(len(outb)-300):], 300))
}

func (rc *RealCluster) Stop() {
	if rc.proxy != nil && rc.proxy.Process != nil {
		rc.proxy.Process.Kill()
		rc.proxy.Wait()
	}
	for _, n := range rc.nodes {
		n.ln.Close()
	}
	if rc.dir != "" {
		os.RemoveAll(rc.dir)
	}
}

func (rc *RealCluster) serve(n *RealNode, spec *NodeSpec) {
	for {
		c, err := n.ln.Accept()
		if err != nil {
			return
		}
		rc.mu.Lock()
		rc.connSeq++
		id := rc.connSeq
		rc.mu.Unlock()
		go rc.serveConn(c, n, spec, id)
	}
}

func (rc *RealCluster) serveConn(c net.Conn, n *RealNode, spec *NodeSpec, id int) {
	defer c.Close()
	bc := &BConn{ID: id, Addr: n.Sim, Node: spec}
	r := bufio.NewReader(c)
	var inbox []byte
	buf := make([]byte, 65536)
	for {
		k, err := r.Read(buf)
		if k > 0 {
			inbox = append(inbox, buf[:k]...)
			for len(inbox) > 0 {
				args, m, st := ParseRequestStrict(inbox)
				if st == ParseIncomplete {
					break
				}
				if st == ParseMalformed {
					rc.mu.Lock()
					rc.cmds = append(rc.cmds, CmdRec{Addr: n.Sim, Conn: id, Raw: append([]byte("MALFORMED:"), inbox...), Args: [][]byte{[]byte("malformed")}})
					rc.mu.Unlock()
					c.Write([]byte("-ERR Protocol error\r\n"))
					return
				}
				raw := append([]byte{}, inbox[:m]...)
				inbox = inbox[m:]
				cp := make([][]byte, len(args))
				for i, a := range args {
					cp[i] = append([]byte{}, a...)
				}
				reply := rc.answer(bc, cp, raw)
				if reply == nil {
					continue // stalled: never answered
				}
				if _, err := c.Write(rc.tr(reply)); err != nil {
					return
				}
			}
		}
		if err != nil {
			return
		}
	}
}

func (rc *RealCluster) answer(bc *BConn, args [][]byte, raw []byte) []byte {
	rc.mu.Lock()
	defer rc.mu.Unlock()
	name := Lower(args[0])
	switch name {
	case "ping":
		return []byte(RPong)
	case "info":
		return Bulk("# Server\r\nredis_version:6.0.0\r\nloading:0\r\nrole:master\r\nmaster_link_status:up\r\n")
	}
	// real addresses inside requests never occur; the node model sees simulated addresses only
	w := rc.w
	w.Sc = rc.sc
	reply, hold := w.answer(bc, args)
	rec := CmdRec{Seq: len(rc.cmds), Addr: bc.Addr, Conn: bc.ID, Raw: raw, Args: args, Reply: reply}
	bc.Log = append(bc.Log, rec)
	rc.cmds = append(rc.cmds, rec)
	if hold != 0 {
		return nil
	}
	return reply
}

type RealOutcome struct {
	Clients [][]byte
	Closed  []bool
	PerNode map[string][]string
	Note    string
}

func countRequests(b []byte) (int, bool) {
	n := 0
	for len(b) > 0 {
		_, m, st := ParseRequestStrict(b)
		if st != ParseOK {
			return n, false
		}
		n++
		b = b[m:]
	}
	return n, true
}

// Replay runs the default schedule of sc over real sockets: clients one after the other, every chunk after
// the replies to the requests sent so far have arrived.
func (rc *RealCluster) Replay(sc *Scenario) (*RealOutcome, error) {
	rc.mu.Lock()
	rc.sc = sc
	rc.w = &World{Sc: sc, KV: map[string]map[string]string{}}
	start := len(rc.cmds)
	rc.mu.Unlock()
	out := &RealOutcome{PerNode: map[string][]string{}}
	for ci := range sc.Clients {
		cs := &sc.Clients[ci]
		c, err := net.DialTimeout("tcp4", rc.Addr, time.Second)
		if err != nil {
			return nil, err
		}
		var got []byte
		closed := false
		var sent []byte
		readUntil := func(want int, max time.Duration) {
			deadline := time.Now().Add(max)
			buf := make([]byte, 65536)
			for !closed {
				rs, _, _ := SplitReplies(got)
				if want >= 0 && len(rs) >= want {
					// a little grace to catch stray extra bytes
					c.SetReadDeadline(time.Now().Add(30 * time.Millisecond))
				} else {
					c.SetReadDeadline(deadline)
				}
				k, err := c.Read(buf)
				got = append(got, buf[:k]...)
				if err != nil {
					if ne, ok := err.(net.Error); ok && ne.Timeout() {
						return
					}
					closed = true
					return
				}
			}
		}
		for _, ch := range cs.Chunks {
			if closed {
				break
			}
			if _, err := c.Write(ch.Data); err != nil {
				closed = true
				break
			}
			sent = append(sent, ch.Data...)
			if n, ok := countRequests(sent); ok {
				readUntil(n, 2*time.Second)
			} else {
				readUntil(-1, 250*time.Millisecond)
			}
		}
		if !closed {
			readUntil(-1, 150*time.Millisecond)
		}
		c.Close()
		out.Clients = append(out.Clients, got)
		out.Closed = append(out.Closed, closed)
	}
	time.Sleep(20 * time.Millisecond)
	rc.mu.Lock()
	for _, rec := range rc.cmds[start:] {
		switch Lower(rec.Args[0]) {
		case "auth", "readonly", "cluster", "asking":
			continue
		}
		if len(rec.Args) > 1 && strings.HasPrefix(string(rec.Args[1]), "__ready") {
			continue
		}
		out.PerNode[rec.Addr] = append(out.PerNode[rec.Addr], string(rec.Raw))
	}
	rc.mu.Unlock()
	return out, nil
}

// SimOutcome: the same observables from a simulated execution.
func SimOutcome(w *World) *RealOutcome {
	out := &RealOutcome{PerNode: map[string][]string{}}
	for _, c := range w.Clients {
		out.Clients = append(out.Clients, c.Received)
		out.Closed = append(out.Closed, c.ProxyClosed)
	}
	for _, rec := range w.DataCmds("") {
		out.PerNode[rec.Addr] = append(out.PerNode[rec.Addr], string(rec.Raw))
	}
	return out
}

// Diff describes the first difference between a simulated and a real outcome ("" = equal).
// Commands of one node are compared as multisets when their order differs only inside one request
// (the routing order of a request's fragments is a map iteration order in the real binary).
func (a *RealOutcome) Diff(b *RealOutcome) string {
	if len(a.Clients) != len(b.Clients) {
		return "client count differs"
	}
	for i := range a.Clients {
		if !bytes.Equal(a.Clients[i], b.Clients[i]) {
			return fmt.Sprintf("client %d: simulated %q, real %q", i, clip(a.Clients[i], 300), clip(b.Clients[i], 300))
		}
		if a.Closed[i] != b.Closed[i] {
			return fmt.Sprintf("client %d: closed by proxy: simulated %v, real %v", i, a.Closed[i], b.Closed[i])
		}
	}
	addrs := map[string]bool{}
	for k := range a.PerNode {
		addrs[k] = true
	}
	for k := range b.PerNode {
		addrs[k] = true
	}
	for k := range addrs {
		x, y := append([]string{}, a.PerNode[k]...), append([]string{}, b.PerNode[k]...)
		sort.Strings(x)
		sort.Strings(y)
		if strings.Join(x, "|") != strings.Join(y, "|") {
			return fmt.Sprintf("node %s: simulated received %q, real received %q", k, a.PerNode[k], b.PerNode[k])
		}
	}
	return ""
}

func max0(n int) int {
	if n < 0 {
		return 0
	}
	return n
}

func clip(b []byte, n int) []byte {
	if len(b) > n {
		return b[:n]
	}
	return b
}
