package vsys

import (
	"context"
	"errors"
	"io"
	"net"
	"time"
)

// RedisPeer is the scripted node behind an in-memory connection of the proxy's own redis client (core/pkg/redis): the
// client's writes are handed to Write, its reads are served from Read (which returns the next piece of the node's
// replies, or io.EOF when nothing is pending - the client never blocks).
type RedisPeer interface {
	Write(p []byte)
	Read(p []byte) (int, error)
	Close()
}

// RedisDialHook decides the outcome of a dial of the proxy's own redis client to addr (nil hook: refused).
var RedisDialHook func(addr string) (RedisPeer, error)

// RedisDial replaces (*net.Dialer).DialContext in core/pkg/redis/conn.go.
func RedisDial(ctx context.Context, network, addr string) (net.Conn, error) {
	sys()
	if RedisDialHook == nil {
		return nil, errors.New("dial tcp " + addr + ": connection refused")
	}
	p, err := RedisDialHook(addr)
	if err != nil {
		return nil, err
	}
	return &memConn{peer: p, addr: addr}, nil
}

type memConn struct {
	peer   RedisPeer
	addr   string
	closed bool
}

type memAddr string

func (a memAddr) Network() string { return "tcp" }
func (a memAddr) String() string  { return string(a) }

func (c *memConn) Read(p []byte) (int, error) {
	sys()
	if c.closed {
		return 0, net.ErrClosed
	}
	n, err := c.peer.Read(p)
	if n == 0 && err == nil {
		return 0, io.EOF
	}
	return n, err
}
func (c *memConn) Write(p []byte) (int, error) {
	sys()
	if c.closed {
		return 0, net.ErrClosed
	}
	c.peer.Write(p)
	return len(p), nil
}
func (c *memConn) Close() error {
	if !c.closed {
		c.closed = true
		c.peer.Close()
	}
	return nil
}
func (c *memConn) LocalAddr() net.Addr                { return memAddr("127.0.0.1:0") }
func (c *memConn) RemoteAddr() net.Addr               { return memAddr(c.addr) }
func (c *memConn) SetDeadline(t time.Time) error      { return nil }
func (c *memConn) SetReadDeadline(t time.Time) error  { return nil }
func (c *memConn) SetWriteDeadline(t time.Time) error { return nil }
