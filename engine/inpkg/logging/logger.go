// Verification stub for rcproxy/core/pkg/logging/logger.go: same API. Info/Warn/Error lines are always formatted (as the
// production logger does; a formatting fault is a fault of the proxy) and kept only when Capture is on (replays). Debug
// lines and Debug closures are evaluated only when DebugOn is set (a scenario that models log level "debug"); otherwise
// they are skipped like at the production INFO level.
package logging

import (
	"fmt"

	"rcproxy/core/vsys"
)

// MaxLines bounds what a replay keeps: a proxy that logs inside an endless loop must end in the livelock verdict, not in
// an out-of-memory kill of the checker.
const MaxLines = 20000

var logObj *logger = nil

var (
	DebugOn bool
	Capture bool
	Lines   []string
	// Counters by level, always maintained (cheap): lets oracles see "an error was logged".
	NWarn, NError int
)

func VerifResetLog() { Lines = Lines[:0]; NWarn, NError = 0, 0 }

func add(l, f string, v ...interface{}) {
	line := fmt.Sprintf(f, v...)
	vsys.LoopTickN(500) // a log line without any system call in between counts like 500 loop iterations
	if Capture {
		if len(Lines) < MaxLines {
			Lines = append(Lines, l+" "+line)
		} else if len(Lines) == MaxLines {
			Lines = append(Lines, "... further lines dropped")
		}
	}
}
func Debug(v ...interface{}) {
	if DebugOn {
		_ = fmt.Sprint(v...)
	}
}
func Debugf(format string, v ...interface{}) {
	if DebugOn {
		_ = fmt.Sprintf(format, v...)
	}
}
func Debugfunc(f func() string) {
	if DebugOn {
		_ = f()
	}
}
func Info(v ...interface{})                 { add("I", "%s", fmt.Sprint(v...)) }
func Infof(format string, v ...interface{}) { add("I", format, v...) }
func Warn(v ...interface{}) {
	NWarn++
	add("W", "%s", fmt.Sprint(v...))
}
func Warnf(format string, v ...interface{}) { NWarn++; add("W", format, v...) }
func Error(v ...interface{}) {
	NError++
	add("E", "%s", fmt.Sprint(v...))
}
func Errorf(format string, v ...interface{}) { NError++; add("E", format, v...) }
