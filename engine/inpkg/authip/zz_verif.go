// Verification harness file overlaid into package authip.
package authip

import (
	"bytes"
	"runtime"

	"github.com/cornelk/hashmap"
)

// the watcher object of the running process: LoopIPWhiteList creates ONE AuthIp and calls parseAuthIp on it for the initial
// load and for every change event, so whatever that object remembers between loads is part of the behaviour
var verifWatcher *AuthIp

// VerifReset empties the live whitelist and forgets the watcher object (a fresh process).
func VerifReset() {
	if verifTouched {
		VerifQuiesce()
	}
	IpMap.enable = false
	IpMap.HashMap = hashmap.HashMap{}
	verifWatcher = nil
}

// VerifReload runs the real parseAuthIp exactly as the watcher does on a change event (same long-lived object).
func VerifReload(dir, file string) error {
	if verifWatcher == nil || verifWatcher.path != dir || verifWatcher.name != dir+"/"+file {
		verifWatcher = &AuthIp{path: dir, name: dir + "/" + file}
	}
	verifTouched = true
	err := verifWatcher.parseAuthIp()
	VerifQuiesce()
	return err
}

// VerifSet sets the live whitelist directly (E1 scenarios that are not about reload).
func VerifSet(enable bool, ips ...string) {
	VerifReset()
	IpMap.enable = enable
	for _, ip := range ips {
		IpMap.Insert(ip, struct{}{})
	}
	if len(ips) > 0 {
		verifTouched = true
		VerifQuiesce()
	}
}

// set once anything was inserted in this process (the real watcher of the thorough tier inserts from its own goroutine and is
// started after a reset, so it counts as touched as well: see VerifTouch)
var verifTouched bool

// VerifTouch marks the map as possibly growing (used before the real watcher is started).
func VerifTouch() { verifTouched = true }

var verifGrow = []byte("created by github.com/cornelk/hashmap.") // matches the goroutine before its first instruction, too

// VerifQuiesce waits until the hashmap's background grow goroutine (started by Insert when the fill rate is exceeded) has
// finished: it works on IpMap's fields, so replacing the map for the next execution while it runs would crash the worker,
// and an execution must not depend on how far it got.
func VerifQuiesce() {
	buf := make([]byte, 1<<16)
	for i := 0; i < 1000000; i++ {
		n := runtime.Stack(buf, true)
		if n == len(buf) {
			buf = make([]byte, 2*len(buf))
			continue
		}
		if !bytes.Contains(buf[:n], verifGrow) {
			return
		}
		runtime.Gosched()
	}
}
